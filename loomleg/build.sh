#!/usr/bin/env bash
set -euo pipefail
cd "$(dirname "$0")"
export CARGO_NET_OFFLINE=true
python3 gen_flag.py >/dev/null
cargo build --release --offline 2>&1 | tail -1
