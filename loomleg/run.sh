#!/usr/bin/env bash
# LOOM leg of C07. Prints one line per body:  LOOM body=<name> ok=<true|false> interleavings=<n>
# exit 0 = every body terminated in every interleaving; 1 = a body failed (lost wake-up /
# deadlock / panic); 2 = machinery (flag.rs imports not redirectable, build failure)
set -uo pipefail
cd "$(dirname "$0")"
BOUND=${1:-3}
export CARGO_NET_OFFLINE=true RUST_BACKTRACE=0
LT=${VERIF_LOOM_TARGET:-/verif/target-loom}
export CARGO_TARGET_DIR="$LT"
python3 gen_flag.py >/dev/null || exit 2
if ! cargo build --release --offline >/tmp/loomleg-build.$$ 2>&1; then
  grep -E "^error" -A6 /tmp/loomleg-build.$$ | head -30 >&2; rm -f /tmp/loomleg-build.$$; exit 2
fi
rm -f /tmp/loomleg-build.$$
rc=0
for b in one-waiter two-waiters tickets-share-gone ticket-done-and-gone; do
  out=$(timeout -s KILL 300 "$LT/release/loomleg" "$b" "$BOUND" 2>&1)
  if echo "$out" | grep -q "^LOOM-OK"; then
    n=$(echo "$out" | grep "^LOOM-OK" | sed 's/.*interleavings=//')
    echo "LOOM body=$b ok=true interleavings=$n"
  else
    why=$(echo "$out" | grep -iE "deadlock|panicked|assert" | head -1 | cut -c1-160)
    echo "LOOM body=$b ok=false interleavings=0 why=${why:-killed-or-crashed}"
    rc=1
  fi
done
exit $rc
