#!/usr/bin/env python3
"""Copy /repo/crates/supervisor/src/flag.rs to src/flag.rs, redirecting ONLY its imports of
synchronisation primitives to loom. Everything after the `use` section is copied verbatim;
if the `use` section contains something this script does not know how to redirect, it fails
loudly (exit 2) rather than guessing."""
import re, sys
import os
src = open(os.environ.get('LOOMLEG_SRC', '/repo/crates/supervisor/src/flag.rs')).read()
# split: leading doc comments + use items | rest
m = re.search(r'^(?!//|use |\s|\}|\)|$)', src, re.M)
lines = src.split('\n')
i = 0
depth = 0
end = 0
in_use = False
for n, l in enumerate(lines):
    s = l.strip()
    if not in_use:
        if s.startswith('use '):
            in_use = True
            depth = l.count('{') - l.count('}')
            if depth <= 0 and s.endswith(';'):
                in_use = False
            end = n + 1
            continue
        if s == '' or s.startswith('//'):
            continue
        break
    else:
        depth += l.count('{') - l.count('}')
        end = n + 1
        if depth <= 0 and s.endswith(';'):
            in_use = False
head = '\n'.join(lines[:end])
body = '\n'.join(lines[end:])
names = set(re.findall(r'\b([A-Z][A-Za-z]+|take|Relaxed|Acquire|Release|AcqRel|SeqCst)\b', re.sub(r'//.*', '', head)))
known = {'Pin', 'AtomicBool', 'Ordering', 'Relaxed', 'Acquire', 'Release', 'AcqRel', 'SeqCst', 'Arc', 'Mutex', 'PoisonError', 'Future', 'Context', 'Poll', 'Waker', 'AtomicWaker', 'take', 'RwLock', 'AtomicUsize', 'Condvar'}
unknown = names - known
if unknown:
    sys.stderr.write(f'loomleg: flag.rs imports names this leg cannot redirect: {sorted(unknown)}\n')
    sys.exit(2)
out = ['// GENERATED from /repo/crates/supervisor/src/flag.rs: imports redirected to loom, body verbatim', '#![allow(clippy::all)]']
out.append('use std::{future::Future, mem::take, pin::Pin, sync::PoisonError, task::{Context, Poll, Waker}};')
orderings = [o for o in ['Relaxed', 'Acquire', 'Release', 'AcqRel', 'SeqCst'] if o in names]
atom = [a for a in ['AtomicBool', 'AtomicUsize'] if a in names]
sync = [s for s in ['Arc', 'Mutex', 'RwLock', 'Condvar'] if s in names]
inner = []
if atom or orderings or 'Ordering' in names:
    parts = atom + (['Ordering'] if 'Ordering' in names else []) + [f'Ordering::{o}' for o in orderings]
    inner.append('atomic::{' + ', '.join(parts) + '}')
inner += sync
out.append('use loom::sync::{' + ', '.join(inner) + '};')
if 'AtomicWaker' in names:
    out.append('''
/// futures::task::AtomicWaker over loom's
#[derive(Debug)]
pub struct AtomicWaker(loom::future::AtomicWaker);
impl AtomicWaker {
	pub fn new() -> Self { Self(loom::future::AtomicWaker::new()) }
	pub fn register(&self, w: &Waker) { self.0.register_by_ref(w) }
	pub fn wake(&self) { self.0.wake() }
}''')
open('src/flag.rs', 'w').write('\n'.join(out) + '\n' + body)
print('loomleg: generated src/flag.rs,', len(body.splitlines()), 'body lines verbatim')
