#!/usr/bin/env python3
"""Which quick checks report which seeded change (or, with --benign, which raise a false alarm
on a property-preserving change kept under /verif/benign/<name>/patch.diff).

Works on an ISOLATED copy: /tmp/mx/verif (a copy of /verif), /tmp/mx/repo (a scratch worktree
of /repo's HEAD), own target directories — so it can run in the background without touching
/repo, /verif/evidence or /verif/target. For every seeded/<name>/patch.diff: apply to the
scratch repo, run the quick checks of the seed's family (or all with --all), record exit code
and violated keys, revert. Result: /verif/seeded/MATRIX.json (+ MATRIX.md).
usage: seed_matrix.py [--benign] [--all] [--own] [--checks=C01,C02] [--force] [names...]
--own runs only the change's own check (quick way to extend the matrix).
--checks restricts the run to these checks (intersected with the family); --force re-runs
names already in the matrix (their other columns are kept)."""
import json, os, subprocess, sys, glob, shutil
BENIGN='--benign' in sys.argv
MX='/tmp/bx' if BENIGN else '/tmp/mx'
KIND='benign' if BENIGN else 'seeded'
def sh(cmd, **k): return subprocess.run(cmd, shell=True, capture_output=True, text=True, **k)
FAMILY={
 'sup':['C04','C06','C07','C09','C10','C05','C08','C18'],
 'lib':['C01','C02','C13','C15','C05','C08'],
 'cli':['C05','C08','C12','C18'],
 'ign':['C03','C14','C11','C12'],
 'glob':['C11','C12'],
 'ev':['C16','C19','C17'],
 'sig':['C19','C16','C06'],
 'paths':['C17'],
 'orig':['C20','C12'],
}
def family(patch):
    t=open(patch).read()
    f=set()
    if 'crates/supervisor' in t: f|=set(FAMILY['sup'])
    if 'crates/lib/src/paths' in t: f|=set(FAMILY['paths'])
    elif 'crates/lib' in t: f|=set(FAMILY['lib'])
    if 'crates/cli' in t: f|=set(FAMILY['cli'])
    if 'crates/ignore-files' in t: f|=set(FAMILY['ign'])
    if 'crates/filterer' in t: f|=set(FAMILY['glob'])
    if 'crates/events' in t: f|=set(FAMILY['ev'])
    if 'crates/signals' in t: f|=set(FAMILY['sig'])
    if 'crates/project-origins' in t: f|=set(FAMILY['orig'])
    return sorted(f)
def setup():
    if os.path.isdir(f'{MX}/repo'):
        sh(f'git -C /repo worktree remove --force {MX}/repo')
    shutil.rmtree(MX, ignore_errors=True)
    os.makedirs(MX)
    r=sh(f'git -C /repo worktree add -q {MX}/repo HEAD'); assert r.returncode==0, r.stderr
    sh(f"rsync -a --exclude 'target*' --exclude work --exclude replays --exclude .git /verif/ {MX}/verif/")
    sh(f"sed -i 's#/repo/#{MX}/repo/#g' {MX}/verif/engine/*/Cargo.toml {MX}/verif/loomleg/gen_flag.py")
    sh(f"sed -i 's#target-dir = .*#target-dir = \"{MX}/target\"#' {MX}/verif/engine/.cargo/config.toml")
    sh(f"sed -i 's#target-dir = .*#target-dir = \"{MX}/target-loom\"#' {MX}/verif/loomleg/.cargo/config.toml")
ENV=dict(os.environ, VERIF_TARGET_DIR=f'{MX}/target', VERIF_LOOM_TARGET=f'{MX}/target-loom', LOOMLEG_SRC=f'{MX}/repo/crates/supervisor/src/flag.rs')
def main():
    args=sys.argv[1:]
    allchecks='--all' in args
    only=[a for a in args if not a.startswith('--')]
    force='--force' in args
    restrict=None
    for a in args:
        if a.startswith('--checks='): restrict=set(a.split('=',1)[1].split(','))
    setup()
    seeds=sorted(glob.glob('/verif/'+KIND+'/*/patch.diff'))
    mpath=f'/verif/{KIND}/MATRIX.json'
    matrix=json.load(open(mpath)) if os.path.exists(mpath) else {}
    for pd in seeds:
        name=os.path.basename(os.path.dirname(pd))
        if only and name not in only: continue
        if not only and name in matrix and not allchecks and not force: continue
        r=sh(f'git -C {MX}/repo apply {pd}')
        if r.returncode!=0:
            print(name,'patch does not apply:',r.stderr[:200]); continue
        checks=[f'C{i:02d}' for i in range(1,21)] if allchecks else family(pd)
        own=name.split('-')[0]
        if own not in checks: checks.append(own)
        if '--own' in args:
            # the change's own check, plus the checks named as detecting it in a cross note
            checks=[own]+{'C01-g':['C13'],'C18-g':['C09'],'C04-g':['C09']}.get(name,[])
        if restrict is not None: checks=[c for c in checks if c in restrict]
        if not checks:
            sh(f'git -C {MX}/repo checkout -- .')
            continue
        row=matrix.get(name,{})
        try:
            for c in sorted(checks):
                o=subprocess.run(f'cd {MX}/verif && ./check {c} --tier quick', shell=True, capture_output=True, text=True, env=ENV)
                keys=[l.split('key:',1)[1].strip() for l in o.stdout.splitlines() if l.strip().startswith('key:')]
                row[c]={'exit':o.returncode,'keys':keys[:5]}
                print(name,c,o.returncode,keys[:2],flush=True)
        finally:
            sh(f'git -C {MX}/repo checkout -- .')
        matrix[name]=row
        json.dump(matrix,open(mpath,'w'),indent=1,sort_keys=True)
    # markdown summary
    with open(f'/verif/{KIND}/MATRIX.md','w') as f:
        f.write('| change | quick checks that report a violation | ran without violation |\n|---|---|---|\n')
        for name in sorted(matrix):
            hit=[c for c,v in sorted(matrix[name].items()) if v['exit']==1]
            ok=[c for c,v in sorted(matrix[name].items()) if v['exit']==0]
            other=[f"{c}(exit {v['exit']})" for c,v in sorted(matrix[name].items()) if v['exit'] not in (0,1)]
            f.write(f"| {name} | {' '.join(hit)} | {' '.join(ok+other)} |\n")
    print('done')
main()
