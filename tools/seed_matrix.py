#!/usr/bin/env python3
"""For every seeded change under /verif/seeded/<name>/patch.diff: apply it to /repo, run the
quick checks (all, or those given), record which report a violation, revert. Writes
seeded/MATRIX.json. /repo must be clean."""
import json, os, subprocess, sys, glob
ROOT='/verif'
def sh(*a, **k): return subprocess.run(*a, shell=True, capture_output=True, text=True, **k)
assert sh('git -C /repo status --porcelain').stdout.strip()=='' , 'repo not clean'
checks=[f'C{i:02d}' for i in range(1,21)]
only=sys.argv[1:]
seeds=sorted(glob.glob(f'{ROOT}/seeded/*/patch.diff'))
mpath=f'{ROOT}/seeded/MATRIX.json'
matrix=json.load(open(mpath)) if os.path.exists(mpath) else {}
for pd in seeds:
    name=os.path.basename(os.path.dirname(pd))
    if only and name not in only: continue
    r=sh(f'git -C /repo apply {pd}')
    if r.returncode!=0:
        print(name,'patch does not apply:',r.stderr[:200]); continue
    row={}
    try:
        for c in checks:
            o=sh(f'cd {ROOT} && ./check {c} --tier quick')
            keys=[l.split('key:',1)[1].strip() for l in o.stdout.splitlines() if l.strip().startswith('key:')]
            row[c]={'exit':o.returncode,'keys':keys[:6]}
            print(name,c,o.returncode,keys[:2],flush=True)
    finally:
        sh('git -C /repo checkout -- .')
    matrix[name]=row
    json.dump(matrix,open(mpath,'w'),indent=1)
print('done')
