#!/usr/bin/env python3
"""Generate /verif/MANIFEST.json from the table below (kept here so the manifest is
always schema-valid and in step with what ./check implements)."""
import json, subprocess, sys, os

ROOT = os.path.dirname(os.path.dirname(os.path.abspath(__file__)))

DEX_NOTE = ("Trusted base: tokio 1.43.0 with three explorer seams (select! start branch, next task to poll, "
            "runnable-count) — scheduling granularity is one task poll on a current-thread runtime; virtual time "
            "(1 tick = 10 ms); SimChild / FakeWatcher as models of the OS process / notify watcher; bounds as reported "
            "in the evidence (script length, deviation bound per FIFO/LIFO base policy).")
ENUM_NOTE = ("Trusted base: the ignore / globset / serde_json / nix crates' own single-item behaviour; the reference "
             "model written from the statement; finite grammar as reported in the evidence.")

# id -> (engine, technique, level text, design ref, note)
CHECKS = {
 "C04": ("dex/h-supervisor", "stateless exhaustive exploration (deviation-bounded DFS over task schedules, select! branches and environment event orders) of the real job task with a simulated child",
         "Every control script up to the length bound, every child reaction class, every spawn/kill/signal/wait fault position, every order of sends / child exit / ticks, and every schedule within the deviation bound is executed on the real start_job task; a live-child counter is checked at every spawn.", "7 C04", DEX_NOTE),
 "C06": ("dex/h-supervisor", "stateless exhaustive exploration of the real job task under virtual time, timed oracle on the simulated child's call log",
         "Same exploration as C04 plus marker scripts behind a graceful control; timed rules: no kill before t0+grace in any schedule, killed and reaped at every quiescent instant past t0+grace, normal controls held until the child ended, exactly one replacement per graceful restart.", "7 C06", DEX_NOTE),
 "C07": ("dex/h-supervisor", "stateless exhaustive exploration of the real job task; ticket deadlines checked at every quiescent instant; loom model checking of flag.rs",
         "Every ticket gets waiter task(s); at every quiescent instant of every explored execution the tickets that the documented semantics require to be resolved must have woken their waiters, including clones, shared job-gone flag, job termination by delete / delete_now / last handle dropped, and spawn/signal/kill/wait faults.", "7 C07", DEX_NOTE),
 "C10": ("dex/h-supervisor", "stateless exhaustive exploration of the real job task with marker closures probing pending higher-priority tickets",
         "Markers, wait-for-end and delete-now from one or two senders, with and without an armed grace timer, as settled sends and bursts; per-sender order, at-most-once, and 'no normal control runs while an urgent (or immediately-completing high) one is pending' are checked in every explored schedule.", "7 C10", DEX_NOTE),
}

NOT_YET = {}

def main():
    props = [json.loads(l) for l in open(os.path.join(ROOT, "properties.jsonl"))]
    ids = [p["id"] for p in props]
    repo_commits = subprocess.run(["git", "-C", "/repo", "log", "--format=%h %s"], capture_output=True, text=True).stdout.splitlines()
    hooks = [c.split()[0] for c in repo_commits if c.split(" ", 1)[1].startswith("verif hook")]
    checks = []
    for i in ids:
        if i not in CHECKS:
            continue
        eng, tech, text, ref, note = CHECKS[i]
        checks.append({
            "property_id": i,
            "quick_cmd": f"./check {i} --tier quick",
            "thorough_cmd": f"./check {i} --tier thorough",
            "evidence_file": f"/verif/evidence/{i}.json",
            "replay_cmd_template": f"./check {i} --replay {{path}}",
            "engine": eng,
            "level_claimed": {"category": "model_checking", "text": text, "design_ref": f"DESIGN.md section {ref}"},
            "level_note": note,
            "technique": tech,
        })
    na = [{"property_id": i, "reason": NOT_YET.get(i, "check not built yet in this session (see DESIGN.md section 13 for the build order); not claimed until it exists")} for i in ids if i not in CHECKS]
    m = {
        "version": 1,
        "setup_cmd": "./setup.sh",
        "hooks": {
            "guard": "--cfg watchexec_verif",
            "enable": "RUSTFLAGS=\"--cfg watchexec_verif\" cargo build --release --offline (in /verif/engine, path dependencies on /repo/crates/*, target dir /verif/target)",
            "baseline_off_cmd": "cd /repo && cargo nextest run --workspace --no-fail-fast --tool-config-file pb:/w/lib/nextest.toml --profile pb --test-threads 8 --offline",
            "source_commits": list(reversed(hooks)),
            "add_only": True,
        },
        "engines": [
            {"name": "dex", "path": "/verif/engine/dex", "serves_properties": ["C01","C02","C04","C05","C06","C07","C08","C09","C10","C13","C15"], "kind_free_text": "deterministic exhaustive exploration of real tokio code: stateless deviation-bounded DFS over scheduling, select! and environment choices (CHESS-style), FIFO and LIFO base policies, anchored windows"},
            {"name": "enum", "path": "/verif/engine/h-enum", "serves_properties": ["C03","C11","C12","C14","C16","C17","C18","C19","C20"], "kind_free_text": "bounded-exhaustive enumeration of inputs / configurations / operation sequences against an executable reference model"},
            {"name": "loom", "path": "/verif/loomleg", "serves_properties": ["C07"], "kind_free_text": "loom exploration of thread interleavings of the real flag.rs (imports redirected to loom)"},
        ],
        "checks": checks,
        "not_applicable": na,
        "notes": "Exit codes of every command: 0 held / only open known findings (KNOWN-FINDING lines), 1 violation (VIOLATION line + replay file), 2 machinery error (no verdict). known_findings.json lists open findings and fixed ones; evidence/<id>.json is rewritten by every run.",
    }
    json.dump(m, open(os.path.join(ROOT, "MANIFEST.json"), "w"), indent=1)
    print("MANIFEST.json:", len(checks), "checks,", len(na), "not claimed")

main()
