#!/usr/bin/env python3
"""Generate /verif/MANIFEST.json from the table below (kept here so the manifest is
always schema-valid and in step with what ./check implements)."""
import json, subprocess, sys, os

ROOT = os.path.dirname(os.path.dirname(os.path.abspath(__file__)))

DEX_NOTE = ("Trusted base: tokio 1.43.0 with three explorer seams (select! start branch, next task to poll, "
            "runnable-count) — scheduling granularity is one task poll on a current-thread runtime; virtual time "
            "(1 tick = 10 ms); SimChild / FakeWatcher as models of the OS process / notify watcher; bounds as reported "
            "in the evidence (script length, deviation bound per FIFO/LIFO base policy).")
ENUM_NOTE = ("Trusted base: the ignore / globset / serde_json / nix crates' own single-item behaviour; the reference "
             "model written from the statement; finite grammar as reported in the evidence.")

# id -> (engine, technique, level text, design ref, note)
CHECKS = {
 "C01": ("dex/h-lib", "stateless exhaustive exploration (deviation-bounded DFS over task schedules and environment event orders) of a whole Watchexec instance with scripted filter verdicts; conservation oracle",
         "Every event script up to the length bound over 9 event classes (priority x verdict x emptiness), 1-2 producers, queue sizes {1,2,4096}, throttle {0,2}, sync and gated handlers, every order of sends / ticks / handler completions and every schedule within the deviation bound: the multiset of event ids seen by the handler equals the accepted deliverable ones, each in exactly one batch, never a rejected one, never an empty batch, filter never consulted for urgent/empty events.", "7 C01", DEX_NOTE + " Real inotify / poll-watcher delivery is outside any bounded exhaustive check (DESIGN.md section 10)."),
 "C02": ("dex/h-lib", "stateless exhaustive exploration of a whole Watchexec instance under virtual time; lower-bound oracle in every schedule, DebounceModel equality on the default schedule",
         "Arrival patterns up to the length bound x throttle values (incl. 0 and run-time changes) x handler durations x every order of sends and ticks: no non-urgent batch before first-send + throttle in any schedule; on the default schedule batches and delivery ticks equal the executable DebounceModel (same-window events in one batch, urgent flushes unfiltered, rejected events do not postpone delivery) or, failing that, satisfy the property's clauses directly (not before the window elapsed, at most one tick after it, in-window arrivals complete, urgent handed over at once); throttles that are not whole milliseconds included.", "7 C02, 14.3", DEX_NOTE),
 "C04": ("dex/h-supervisor", "stateless exhaustive exploration (deviation-bounded DFS over task schedules, select! branches and environment event orders) of the real job task with a simulated child",
         "Every control script up to the length bound (incl. the raw continue control), every child reaction class, every spawn/kill/signal/wait fault position, every order of sends / child exit / ticks, and every schedule within the deviation bound is executed on the real start_job task; a live-child counter is checked at every spawn and a spawn after an unreaped drop is a violation.", "7 C04", DEX_NOTE),
 "C06": ("dex/h-supervisor", "stateless exhaustive exploration of the real job task under virtual time, timed oracle on the simulated child's call log",
         "Same exploration as C04 plus marker scripts behind a graceful control; timed rules: no kill before t0+grace in any schedule, killed and reaped at every quiescent instant past t0+grace, normal controls held until the child ended, exactly one replacement per graceful restart, and nothing is killed without having been sent the requested signal first (zero grace included).", "7 C06", DEX_NOTE),
 "C07": ("dex/h-supervisor", "stateless exhaustive exploration of the real job task; ticket deadlines checked at every quiescent instant; loom model checking of flag.rs",
         "Every ticket gets waiter task(s); at every quiescent instant of every explored execution the tickets that the documented semantics require to be resolved must have woken their waiters, including clones, shared job-gone flag, job termination by delete / delete_now / last handle dropped, and spawn/signal/kill/wait faults.", "7 C07", DEX_NOTE),
 "C09": ("dex/h-supervisor + stateright", "trace inclusion of every explored execution of the real job task in an executable reference model (state-set tracking per observation), the model itself exhaustively explored with stateright",
         "The JobModel (documented semantics of every Job method, nondeterministic only where the docs leave an order open) is checked with stateright BFS over all its reachable states for <=3 sends; every DEX execution's observation log (spawns, signals, kills, reaps, hook calls with their env effect, run() closures with current/previous state, tickets resolved at each quiescent instant) must be a trace of that model.", "7 C09, appendix A", DEX_NOTE + " Wait-call faults are not modelled (excluded from C09, covered by C04/C07)."),
 "C10": ("dex/h-supervisor", "stateless exhaustive exploration of the real job task with marker closures at all three priorities probing pending higher-priority tickets",
         "Markers at normal / high / urgent priority, wait-for-end and delete-now from one or two senders, with and without an armed grace timer, as settled sends and bursts; per-sender per-priority order, at-most-once, and 'no control runs while a strictly higher-priority one is pending' are checked in every explored schedule.", "7 C10", DEX_NOTE + " High/urgent marker closures are sent through a cfg(watchexec_verif) seam (the public API only sends fixed controls at those priorities)."),
 "C11": ("enum/h-enum", "bounded-exhaustive enumeration of filterer configurations x probe events against a reference composition law and a metamorphic law",
         "Every configuration of <=2 filters x ordered <=2 ignores (incl. negations) x extensions x whitelist x one ignore file over the glob grammar, each probed with 104 events (file/dir/unknown, inside/outside origin, 1- and 2-path, pathless): verdict equals the documented composition; adding a non-negated ignore never turns reject into pass; every ordered whitelist of <=4 names whose byte order and path order disagree lets exactly the listed files through.", "7 C11", ENUM_NOTE),
 "C13": ("dex/h-lib", "stateless exhaustive exploration of the real fs worker with a recording / fault-injecting watcher; convergence oracle at every quiescent instant",
         "Every sequence of path-set / watcher-kind / unrelated configuration changes up to the length bound over a 3-path universe with recursion flags, issued directly, from inside the action handler or the error handler, at quiescence, under preemption, or in the middle of the previous apply (inside any watch/unwatch call), with watch/unwatch failures: at every quiescent instant the live watcher's registrations equal the configured set (appendix D), errors are reported once per failed call.", "7 C13, appendix D", DEX_NOTE + " Sequences dropping two paths at once are explored only without in-call landings (the worker iterates a randomly seeded HashSet)."),
 "C15": ("dex/h-lib", "stateless exhaustive exploration of a whole Watchexec instance with injected filter errors and watcher faults and scripted error-handler behaviours",
         "Filter errors at every script position, watch/unwatch failures, error queue sizes {1,2,64}, error handler behaviours {record, elevate j-th, critical j-th, replace itself}: each awaited-send fault reaches the handler exactly once, other events are unaffected, main stays alive until an elevation and ends with exactly that critical error afterwards.", "7 C15", DEX_NOTE),
 "C16": ("enum/h-enum", "bounded-exhaustive enumeration of events and of JSON tag objects against a reference decoder",
         "All tag sequences of length <=2 over a 251-tag alphabet (all 41 fs kinds, all signals, all process-end shapes) x metadata shapes round-trip and use the documented field names; 3.7M JSON tag objects (8 kinds x 10 optional members x absent/valid/contradictory) parse to the kind's tag or Unknown, never another kind.", "7 C16", ENUM_NOTE),
 "C17": ("enum/h-enum", "bounded-exhaustive enumeration of event batches against the EnvSummary laws",
         "All batches of <=2 of 440 event shapes (paths x file type x kinds over a universe with shared/disjoint prefixes, prefix-siblings, duplicates): every (event, path, kind) recoverable from its variable, no spurious entries, sorted + deduplicated, COMMON = longest common directory, simple format one line per (kind, path).", "7 C17", ENUM_NOTE),
 "C03": ("enum/h-enum", "bounded-exhaustive enumeration of ignore-file placements, contents, construction orders and read-completion orders against the IgnoreCompose reference model",
         "One maximal tree with prefix-related sibling names; every placement of <=2 ignore files over 7 sites x a 20-line pattern grammar (negations, rooted, dir-only, **), lines repeated after a line of the opposite polarity within and across files of one directory; every construction sequence (new / add_file / add_globs in every order that keeps same-site order, repeated construction) and every read-completion order (FIFO-controlled); 56 probes each through IgnoreFilterer::check_event / check_dir: verdict equals nearest-directory-first git-style composition and is identical across constructions, also when the same files are handed to GlobsetFilterer::new (the CLI's path; built four times per configuration).", "7 C03", ENUM_NOTE),
 "C05": ("dex/h-cli", "stateless exhaustive exploration of the CLI's real action handler (argv -> normalise -> make_config -> Watchexec) with a simulated command; FIFO and LIFO base policies",
         "All four --on-busy-update modes and the -r / --signal shorthands x {postpone, stop-signal, stop-timeout 0, delay-run, debounce} x 1-3 change events x command reaction, every ENV order of changes / command exit / ticks and every schedule within the deviation bound under both base policies: runs never overlap, first run at start-up unless postponed, change while idle starts a run, do-nothing/queue never touch the running command, signal mode sends exactly the configured signal, restart kills only at the stop timeout, in restart/queue modes a run starts after the last change, and in no mode is a running command's handle dropped (killed without signal or reaping); also with every change sharing its batch with a signal that is merely forwarded to the command.", "7 C05", DEX_NOTE),
 "C08": ("dex/h-cli", "stateless exhaustive exploration of a whole Watchexec whose scripted action handler creates jobs in every state class and quits; and of the CLI's real handler under interrupt / terminate events",
         "8 job state classes, among them a job re-created under the id of a deleted one (and all 64 pairs at the default schedule) x {abort, graceful 0, graceful 2} x child reaction x quit in the creating action or later; CLI: INT / TERM / INT batched with a change / mapped INT x stop-signal x stop-timeout: main ends at the next quiescent instant (abort) or by t_q + pending grace + grace + 1 tick (graceful), with Ok, no simulated process left unreaped/undropped, no late spawns; the CLI sends the configured stop signal first and never kills before the stop timeout.", "7 C08", DEX_NOTE + " Real process groups / grandchildren are outside the simulation (DESIGN.md section 10)."),
 "C12": ("enum/h-cli", "complete enumeration of the 64 ignore-flag combinations x explicit option sets through the CLI's real normalisation and filterer construction, against the documented source-attribution table",
         "All 64 combinations of --no-vcs-ignore / --no-project-ignore / --no-global-ignore / --no-default-ignore / --no-discover-ignore / --ignore-nothing x {none, each of --ignore, --ignore-file, --filter, --filter-file, --exts, --fs-events, all together} on a fixture with one probe file per ignore source: explicit options decide as without flags; each flag removes exactly the sources it names.", "7 C12", ENUM_NOTE),
 "C14": ("enum/h-enum", "bounded-exhaustive enumeration of directory trees, ignore-file placements, VCS markers, watch lists and directory listing orders against a reference walk",
         "19 tree shapes x every sibling creation order (checked to change the listing) x {none, .git} x <=2 placed ignore files over 9 slot kinds x 8 contents x explicit watch in {none, subdir, file} (ignore / re-include pairs of files also together with every directory watch): from_origin returns exactly the (path, applies_in, applies_to) set of the reference walk, nothing from ignored or VCS-metadata subtrees, no errors, identical across listing orders.", "7 C14", ENUM_NOTE),
 "C18": ("enum/h-enum", "bounded-exhaustive enumeration of argument vectors and shell descriptions, inspected without a process and spawned for real with an argv-dumping helper",
         "All argument vectors of length <=3 over 12 hostile tokens for Exec, all shell option / program-option / extra-argument shapes, x {plain, grouped, session}; the CLI's interpret_command_args over 7 shell modes; real spawns through a Job report argv bytes, pgid, sid, cwd and env set by sync and async spawn hooks — on every replacement path and with hook changes queued around a start or restart: byte equality and placement as documented.", "7 C18", ENUM_NOTE),
 "C19": ("enum/h-enum", "complete enumeration of signal spellings, numbers and wait statuses against the documented tables",
         "Every valid signal number x {short, SIG-prefixed, number} x {lower, upper, mixed}, all Windows names, all exit codes 0..255, all terminating signals x core bit, --map-signal over the same spellings.", "7 C19", ENUM_NOTE),
 "C20": ("enum/h-enum", "bounded-exhaustive enumeration of directory chains and marker placements against the documented marker table",
         "Chains of depth <=3 on tmpfs; 52 marker names + 6 decoys x {file, directory, FIFO, dangling symlink, symlink to a directory} x every level, all pairs in one directory, every start depth; all 22 project types: origins() = marked levels, types() = marker table, every type exactly one of VCS / software suite; answers after a marker was replaced equal those for a fresh directory.", "7 C20", ENUM_NOTE),
}

NOT_YET = {}

def main():
    props = [json.loads(l) for l in open(os.path.join(ROOT, "properties.jsonl"))]
    ids = [p["id"] for p in props]
    repo_commits = subprocess.run(["git", "-C", "/repo", "log", "--format=%h %s"], capture_output=True, text=True).stdout.splitlines()
    hooks = [c.split()[0] for c in repo_commits if c.split(" ", 1)[1].startswith("verif hook")]
    checks = []
    for i in ids:
        if i not in CHECKS:
            continue
        eng, tech, text, ref, note = CHECKS[i]
        checks.append({
            "property_id": i,
            "quick_cmd": f"./check {i} --tier quick",
            "thorough_cmd": f"./check {i} --tier thorough",
            "evidence_file": f"/verif/evidence/{i}.json",
            "replay_cmd_template": f"./check {i} --replay {{path}}",
            "engine": eng,
            "level_claimed": {"category": "model_checking", "text": text, "design_ref": f"DESIGN.md section {ref}"},
            "level_note": note,
            "technique": tech,
        })
    na = [{"property_id": i, "reason": NOT_YET.get(i, "check not built yet in this session (see DESIGN.md section 13 for the build order); not claimed until it exists")} for i in ids if i not in CHECKS]
    m = {
        "version": 1,
        "setup_cmd": "./setup.sh",
        "hooks": {
            "guard": "--cfg watchexec_verif",
            "enable": "RUSTFLAGS=\"--cfg watchexec_verif\" cargo build --release --offline (in /verif/engine, path dependencies on /repo/crates/*, target dir /verif/target)",
            "baseline_off_cmd": "cd /repo && cargo nextest run --workspace --no-fail-fast --tool-config-file pb:/w/lib/nextest.toml --profile pb --test-threads 8 --offline",
            "source_commits": list(reversed(hooks)),
            "add_only": True,
        },
        "engines": [
            {"name": "dex", "path": "/verif/engine/dex", "serves_properties": ["C01","C02","C04","C05","C06","C07","C08","C09","C10","C13","C15"], "kind_free_text": "deterministic exhaustive exploration of real tokio code: stateless deviation-bounded DFS over scheduling, select! and environment choices (CHESS-style), FIFO and LIFO base policies, anchored windows"},
            {"name": "enum", "path": "/verif/engine/h-enum", "serves_properties": ["C03","C11","C12","C14","C16","C17","C18","C19","C20"], "kind_free_text": "bounded-exhaustive enumeration of inputs / configurations / operation sequences against an executable reference model"},
            {"name": "loom", "path": "/verif/loomleg", "serves_properties": ["C07"], "kind_free_text": "loom exploration of thread interleavings of the real flag.rs (imports redirected to loom)"},
        ],
        "checks": checks,
        "not_applicable": na,
        "notes": "Exit codes of every command: 0 held / only open known findings (KNOWN-FINDING lines), 1 violation (VIOLATION line + replay file), 2 machinery error (no verdict). known_findings.json lists open findings and fixed ones; evidence/<id>.json is rewritten by every run.",
    }
    json.dump(m, open(os.path.join(ROOT, "MANIFEST.json"), "w"), indent=1)
    print("MANIFEST.json:", len(checks), "checks,", len(na), "not claimed")

main()
