#!/usr/bin/env python3
"""fill_prompt.py <template> <PROP-ID> <worktree> [<tag>] -> filled prompt on stdout.
The sub-agent sees only the property text (id, title, statement, quantifier)."""
import json, sys
tpl, pid, wt = sys.argv[1:4]
tag = sys.argv[4] if len(sys.argv) > 4 else pid
for l in open('/verif/properties.jsonl'):
    p = json.loads(l)
    if p['id'] == pid:
        s = open(tpl).read()
        s = s.replace('{WT}', wt).replace('{ID}', tag).replace('{TITLE}', p['title'])
        s = s.replace('{STATEMENT}', p['statement']).replace('{QUANT}', p['quantifier']['text'])
        print(s)
        break
