#!/usr/bin/env bash
# confirm_seed.sh <SEEDNAME> <PROP> <WORKTREE> <SEEDDIR> <install-cmd> <uninstall-cmd> <demo-cmd>
# Confirms, in the scratch worktree: (1) the repo's suite passes with the patch, (2) the demo
# fails with the patch, (3) the demo passes without it. Copies patch + demo into /verif/seeded/<name>/.
set -u
NAME=$1; PROP=$2; WT=$3; SD=$4; INSTALL=$5; UNINSTALL=$6; DEMO=$7
OUT=/verif/seeded/$NAME; mkdir -p "$OUT"
export CARGO_TARGET_DIR=${SEED_TARGET:-/tmp/seed-target} CARGO_NET_OFFLINE=true RUST_BACKTRACE=0
LOG=$OUT/confirm.log; : > "$LOG"
cd "$WT" || exit 2
git checkout -q -- . ; git clean -fdq
git apply "$SD/patch.diff" || { echo "patch does not apply" | tee -a "$LOG"; exit 2; }
echo "## suite with patch" >> "$LOG"
cargo nextest run --workspace --no-fail-fast --tool-config-file pb:/w/lib/nextest.toml --profile pb --offline --test-threads 8 >> "$LOG.suite" 2>&1; SUITE=$?
grep -E "^\s+(FAIL|FLAKY)" "$LOG.suite" | sort -u | head -20 >> "$LOG"
grep -E "Summary|tests run" "$LOG.suite" | tail -2 >> "$LOG"
eval "$INSTALL"
echo "## demo with patch (expect failure)" >> "$LOG"
eval "$DEMO" > "$LOG.demo1" 2>&1; D1=$?
grep -E "^test |test result|panicked|assert" "$LOG.demo1" | head -20 >> "$LOG"
eval "$UNINSTALL"
git apply -R "$SD/patch.diff"
eval "$INSTALL"
echo "## demo without patch (expect success)" >> "$LOG"
eval "$DEMO" > "$LOG.demo2" 2>&1; D2=$?
grep -E "^test |test result|panicked|assert" "$LOG.demo2" | head -20 >> "$LOG"
eval "$UNINSTALL"
git checkout -q -- . ; git clean -fdq
cp "$SD/patch.diff" "$OUT/patch.diff"; rm -rf "$OUT/demo"; cp -r "$SD/demo" "$OUT/demo"; cp "$SD/notes.md" "$OUT/notes.md" 2>/dev/null
rm -f "$LOG.suite" "$LOG.demo1" "$LOG.demo2"
echo "RESULT name=$NAME suite_exit=$SUITE demo_with_patch_exit=$D1 demo_without_patch_exit=$D2" | tee -a "$LOG"
