#!/usr/bin/env python3
"""(Re)write seeded/<name>/meta.json from the table below + the confirmation log."""
import json, os
M={
 'C01-a':('C01','The two urgent special cases of throttle_collect merged into an early return of only the urgent event: events already collected in the open window are dropped.','an urgent event arriving while a throttle window holds accepted events','C01 (C01/accepted-event-lost/...), C02, C15 (conservation clause)'),
 'C02-a':('C02','config.throttle read once before the collect loop instead of per iteration: the first batch after a run-time throttle change made while the worker is idle uses the old duration.','run-time throttle change while idle, then events','C02 (C02/batch-before-window-elapsed/after-runtime-throttle-change) after B1 was strengthened to the throttle in force since the first event was sent'),
 'C03-a':('C03','the component-wise-ancestor check of match_path runs only on the first lookup: on the second hop of the walk (from a nested directory without a match) a name-prefix sibling is accepted again.','test/ and tests/ siblings, an ignore file in test/, an ignore file *below* tests/ (none in tests/ itself) that does not match, probe under that nested directory','C03 (C03/scope/...) after the quick tier gained 3-file "prefix-sibling chain" configurations (it was only in the thorough tier before)'),
 'C04-a':('C04','A raw Control::ContinueTryGracefulRestart (public Job::control()) sent while the command runs and no graceful restart is pending: the running child is forgotten (dropped) without kill+wait and a new one spawned.','multi-step sequence with an unusual control: Start, then ContinueTryGracefulRestart with nothing pending','C04 (C04/spawn-after-unreaped-drop/...) after the alphabet gained the raw continue control and the oracle the "no spawn after an unreaped drop" clause; C09 too'),
 'C05-a':('C05','restart mode uses try_restart_with_signal instead of restart_with_signal: if the command has ended by the time the control runs (e.g. it exits during --delay-run) nothing is started.','-r with the command exiting between the handler\'s "is running" query and the restart control (widened by --delay-run)','C05 (C05/restart/no-run-after-last-change)'),
 'C06-a':('C06','The reset of the restart-on-end flag in the forced continuation is moved into an unreachable else branch: after a graceful try-restart whose grace expires, the replacement own exit spawns the command again.','try_restart_with_signal, child outlives the grace period, then the replacement ends by itself (or via a later graceful stop)','C06 (C06/restart-replacement-count-2/...), C09 (unexpected spawn)'),
 'C07-a':('C07','The error arm of the respawn in the graceful-restart continuation no longer raises the ticket flag.','try_restart_with_signal + child exits within grace + spawn failure at exactly that respawn','C07 (C07/ticket-open/TryGRestart/...), C09 (tickets differ at quiescence)'),
 'C08-a':('C08','LateJoinSet::drop clears the handle list before aborting: an abort quit no longer aborts job tasks.','abort quit while a clone of the job handle is held outside the handler (the control queue stays open, so the job task and its command live on)','C08 (C08/process-left-behind/<class>+HeldOutside, ...)'),
 'C09-a':('C09','the reset of the restart-on-end flag moved from the top to the bottom of the ContinueTryGracefulRestart arm: its three early returns (kill / wait / spawn errors) leave the flag set.','try_restart_with_signal, child outlives grace, a failure exactly at the forced respawn, a later start, and that process ending by itself','C09 (C09/not-a-model-trace/unexpected-spawn/after-TryGRestart), C06'),
 'C10-a':('C10','urgent and high arms of the biased select used while a grace timer is armed are swapped.','grace timer armed, job parked in recv with empty queues, a high and an urgent control both arrive before it wakes','C10 (C10/high-ran-while-urgent-pending) after markers at high/urgent priority were added through the verif_control seam'),
 'C11-a':('C11','paths.any(closure) rewritten as a loop whose ignore branch returns Ok(false) instead of continuing: a multi-path event is rejected as soon as one path matches an ignore pattern.','multi-path event with the ignored path first','C11 (C11/L4/.../two-paths)'),
 'C12-a':('C12','early return from dirs::ignores() when nothing was discovered, before the explicit --ignore-file entries are appended.','--no-project-ignore together with nothing coming from the environment (e.g. --no-global-ignore), plus --ignore-file','C12 (C12/explicit-option-not-honoured/--ignore-file/...)'),
 'C13-a':('C13','unwatch loop moved after the watch loop in the fs worker: flipping the recursion mode of an already watched path registers then unregisters it.','pathset change that keeps a path but flips its recursive flag','C13 (C13/configured-path-not-registered)'),
 'C14-a':('C14','per-directory "recompile once": only the last ignore file found in a directory is loaded into the pruning filter.','a directory holding two ignore files of different kinds where the earlier one decides whether a subdirectory is ignored','C14 (C14/returned-from-pruned-subtree/ignored-directory)'),
 'C15-a':('C15','the filter-error send is wrapped in timeout(maxtime, ..): with a full error queue and a slow error handler the error is dropped silently when the window ends.','error queue full + error handler slower than the throttle window + an accepted event already in the window + a filter error in the same window','C15 (C15/filter-error-not-reported) after the slow-consumer scheduling mode was added'),
 'C16-a':('C16','the three code-carrying completion arms of the JSON decoder merged through an i32 conversion: error codes outside i32 parse back as Unknown.','ExitError with a code outside the i32 range','C16 (C16/roundtrip/completion/error, C16/decode/completion/error/code-wide/...)'),
 'C17-a':('C17','entry buckets changed from HashSet<OsString>+sort() to BTreeSet<PathBuf>: component order instead of byte order.','same kind carrying a directory and a sibling whose name extends it with a byte below "/" (conf/ and conf.d/)','C17 (C17/env/not-byte-sorted/...)'),
 'C18-a':('C18','the forced continuation of a graceful try-restart spawns a fresh spawnable without running the spawn hook.','spawn hook set + try_restart_with_signal + the process still alive when the grace period ends','C18 (C18/respawn/TryGracefulRestartBeyondGrace/...) after the respawn-path leg was added; C09 (hook call missing before a spawn)'),
 'C19-a':('C19','FromStr for Signal tries the unix names before the Windows control names.','the one spelling on which the two tables disagree: STOP','C19 (C19/windows-name/STOP, C19/spelling/SIGSTOP/short)'),
 'C20-a':('C20','types() no longer lists a regular file named .git as a Git marker.','.git as a file (worktree / submodule pointer) without .gitattributes / .gitmodules','C20 (C20/types/missed/Git-from-.git-as-file)'),
 'C01-b':('C01','throttle_collect reads the filterer once per collection cycle (new ChangeableFilterer::current()), not per event.','Config::filterer(other) on a running instance, then a non-urgent event before the next batch','C01 (C01/accepted-event-lost/..., C01/rejected-event-delivered/...) after the SwapFilter pseudo-event was added'),
 'C02-b':('C02','the window is restarted on the first event only if the previous window has already elapsed.','first accepted event arriving less than one throttle after the previous handler returned','C02 (lower bound and DebounceModel keys)'),
 'C03-b':('C03','add_file / add_globs create a missing directory entry with the origin as builder root instead of the directory.','a nested directory whose first ignore file is added (not listed in new()) with an anchored pattern','C03 (C03/construction-dependent/...)'),
 'C04-b':('C04','signal(ForceStop) marks the job finished and drops the child without waiting.','Signal(ForceStop) on a running child followed by a spawning control','C04 (C04/spawn-after-unreaped-drop/...) after SigKill joined the core alphabet; C09'),
 'C05-b':('C05','zero-grace GracefulStop signals, SIGKILLs without waiting and completes at once: the Start queued behind it by restart_with_signal is skipped as "running".','-r / --on-busy-update=restart with --stop-timeout=0 and a change while the command runs','C05 (C05/restart/no-run-after-last-change, C05/restart-mode/wrong-stop-signal), C06, C09'),
 'C06-b':('C06','the already-expired fast path of recv returns a hard-coded Stop instead of the timer\'s control.','graceful try-restart with zero grace, or the deadline passing while an urgent/high control is handled','C06 (C06/restart-replacement-count-0/TryGRestart), C09'),
 'C07-b':('C07','the already-expired fast path of recv no longer clears the timer: the forced control is re-executed forever without yielding.','grace 0 (or a deadline that passes while the task is busy) with the child still running','C07 (C07/execution-never-returns) after the per-execution watchdog was added'),
 'C08-b':('C08','Ticket::poll only samples the job-gone flag and waits on the control-done flag alone.','graceful quit while an earlier un-awaited delete() is still queued for the job','C08 (C08/graceful-quit-past-deadline/Deleted, C08/main-never-ended/Deleted), C07, C09'),
 'C09-b':('C09','same mechanism as C08-b (Ticket::poll ignores the gone flag after registration), written independently.','a ticket already awaited when the job dies while its control never runs','C09 (tickets differ at quiescence), C07'),
 'C10-b':('C10','urgent.try_recv().or(high.try_recv()): eager evaluation pops and discards a high control when an urgent one is queued too.','an urgent and a high control both queued when the job task enters recv()','C10 (C10/control-never-ran), C09 — after burst scenarios were added'),
 'C11-b':('C11','an "empty filterer" fast path returns Ok(true) without consulting the loaded ignore files.','ignore files and nothing else configured','C11 (C11/L3/expected-reject-because-ignore-file-rejects/...)'),
 'C12-b':('C12','IgnoreFilter::new skips an ignore file whose path was already compiled (the CLI lists --ignore-file twice with different scopes).','absolute --ignore-file path, event for a path outside the project origin, discovery not disabled','C12 (C12/explicit-option-not-honoured/--ignore-file/...) after probes outside the origin were added'),
 'C13-b':('C13','the watcher is released on an empty path set only if the worker\'s record of registered paths is non-empty.','every path of the previous set failed to register, then the path set is emptied','C13 (C13/watcher-not-released-on-empty-pathset)'),
 'C14-b':('C14','discover_file skips a path that is already in the result list.','an explicit ignore file that is also a discoverable ignore file of a sub-directory, with an anchored pattern','C14 (C14/explicit-alias/...) after the explicit-alias leg was added'),
 'C15-b':('C15','ChangeableFn::call invokes the handler while holding the read lock.','an error handler that replaces itself from inside its own invocation','C15 (C15/execution-never-returns), C13'),
 'C16-b':('C16','numeric signals in JSON are converted with Signal::from(i32), folding Custom(1,2,3,9,10,12,15) into the first-class signals.','Custom(n) with n one of the seven first-class numbers','C16 (C16/roundtrip/signal/custom, C16/roundtrip/completion/signal)'),
 'C17-b':('C17','the separator between entries is emitted only if the joined string is non-empty.','a directory equal to the common path plus another path in the same variable','C17 (C17/env/path-not-recoverable/...)'),
 'C18-b':('C18','the grouped arm of the wrapper selection placed before the session arm.','grouped: true and session: true together','C18 (C18/inspect/wrap/session)'),
 'C19-b':('C19','the signal-terminated arm of From<ExitStatus> builds the signal from the raw wait status instead of es.signal().','a status with the core-dump bit','C19 (C19/exit-signal/<n>/core)'),
 'C20-b':('C20','origins() folded into a loop that never examines a directory without a parent.','a marker in the filesystem root','C20 (C20/origins/missed-filesystem-root/...) after the chroot leg was added'),
 'C01-c':('C01','fs.rs process_event propagates a failed metadata() lookup as a runtime error instead of ignoring it: every notify event naming a path that no longer exists (remove, rename-from) is dropped before it is queued.','a filesystem event for a path that is gone by the time the callback runs','C01 (C01/fs-event-lost)'),
 'C02-c':('C02','Config::throttle() truncates the duration to whole milliseconds.','a throttle that is not a whole number of milliseconds (1.9 ms -> 1 ms, 0.9 ms -> no debouncing)','C02 (lower bound and DebounceModel keys) after sub-millisecond throttle scenarios were added'),
 'C03-c':('C03','GlobsetFilterer::new de-duplicates the ignore files through a HashSet before IgnoreFilter::new: listed order lost, different on every construction.','two conflicting ignore files applying in one directory, filter built through the globset filterer (the CLI path)','C03 (C03/globset-handoff/...) after the hand-off leg was added'),
 'C04-c':('C04','the forced continuation kills and reaps only when a graceful restart is pending, but still resets and spawns.','raw ContinueTryGracefulRestart on a running job with nothing pending','C04 (C04/spawn-after-unreaped-drop/...), C09'),
 'C05-c':('C05','Control::Start no longer checks is_running(): a start that finds the job running drops the child and spawns another.','two actions decided before the first start is processed (--delay-run): the second start hits a running job','C05 (C05/<mode>/running-command-was-dropped) after the dropped-while-running clause was added; C04, C09'),
 'C06-c':('C06','the *_with_signal entry points use the plain stop / restart when the grace period is zero.','stop_with_signal / restart_with_signal / try_restart_with_signal with grace 0 and a signal other than KILL','C06 (C06/killed-without-the-requested-signal/...) after the signal-first clause was added; C09'),
 'C07-c':('C07','Ticket::poll samples job_gone.raised() once and then polls only control_done: a parked waiter is never registered on the job-gone flag.','a ticket already being awaited whose control never completes (queued behind delete, overtaken by delete_now, handle dropped)','C07 (C07/ticket-open/.../waiters-missing-all)'),
 'C08-c':('C08','LateJoinSet::drop clears before aborting (same site as C08-a, found independently).','abort quit while a clone of the job handle is held outside','C08 (C08/process-left-behind/<class>+HeldOutside ...)'),
 'C09-c':('C09','Job::restart() sends [TryRestart, Start] instead of [Stop, Start].','restart of a running command whose respawn fails: two spawn attempts, two hook calls, previous result overwritten','C09 (C09/not-a-model-trace/unexpected-spawn/after-Restart)'),
 'C10-c':('C10','the multi-control branch of send_controls sends every control at normal priority: delete_now is no longer urgent.','delete_now while other controls are pending or a grace timer is armed','C10 (C10/high-ran-while-urgent-pending, C10/normal-ran-while-urgent-pending)'),
 'C11-c':('C11','whitelist sorted by raw bytes, looked up by binary search with Path ordering.','two explicitly watched files whose byte order and component order disagree (src/main.rs, src-gen/out.rs)','C11 (C11/whitelisted-file-rejected/several-whitelisted-files) after the whitelist-lookup leg was added'),
 'C12-c':('C12','normalise() sets no_discover_ignore when --no-vcs-ignore and --no-project-ignore are both given.','that flag pair with a non-empty global watchexec ignore file','C12 (C12/source-removed-by-unrelated-flag/global-app-ignore/...)'),
 'C13-c':('C13','WatchedPath compares and hashes by path only.','the same path reconfigured from recursive to non-recursive (or back) at run time','C13 (C13/wrong-recursion-mode)'),
 'C14-c':('C14','DirTourist::new drops explicit watch paths the pre-built filter ignores; an empty list means "everything".','every explicit watch lies inside an ignored / VCS directory','C14 (C14/returned-from-pruned-subtree/unrelated-to-explicit-watch)'),
 'C15-c':('C15','ChangeableFn::call runs the handler while the read lock on its own slot is held.','an error handler that replaces itself (config.on_error) from inside the handler: deadlock, later errors never delivered','C15 (C15/execution-never-returns, watchdog)'),
 'C16-c':('C16','numeric JSON signals are mapped through Signal::from(n): Custom(1|2|3|9|10|12|15) parses back as the first-class signal.','a custom signal whose number equals a first-class signal','C16 (C16/roundtrip/signal/custom, C16/roundtrip/completion/signal)'),
 'C17-c':('C17','common_prefix() finds the first differing component with position(): a later path that is a strict ancestor of the prefix never shortens it.','a deeper path first, then a path directly in the common directory (or a Dir event for it)','C17 (C17/env/common/not-longest-common-directory)'),
 'C18-c':('C18','the forced continuation runs the hook on one spawnable and spawns a fresh one.','spawn hook + try_restart_with_signal + the child outliving the grace period','C18 (C18/respawn/TryGracefulRestartBeyondGrace/...)'),
 'C19-c':('C19','from_windows_str strips an optional SIG prefix: SIGSTOP parses as ForceStop.','the SIG-prefixed spelling of STOP through FromStr','C19 (C19/spelling/SIGSTOP/prefixed)'),
 'C20-c':('C20','has_file means "not a directory": FIFOs, sockets and symlinks named like a file marker count.','a marker name on a node that is neither a regular file nor a directory','C20 (C20/origins/spurious/not-a-marker/...-as-fifo ...) after odd node kinds were added'),
 'C01-d':('C01','throttle_collect does not push an event equal to the last collected one ("coalescing").','two events with equal tags and metadata in a row in one window','C01 (C01/accepted-event-lost/NTwin) after equal-valued events were added to the alphabet'),
 'C02-d':('C02','remaining window computed via Instant::checked_add(...).unwrap_or_default(): overflow means zero wait.','a throttle above ~i64::MAX seconds (Duration::MAX)','C02 (lower bound, model) after never-ending-window scenarios were added'),
 'C03-d':('C03','match_path checks the character after the trie key, indexing chars with a byte length.','a directory with a multi-byte name on the way to an ignore file','C03 (.../alternate-fixture) after the alternate fixture was added'),
 'C04-d':('C04','force_stopped flag set by signal(ForceStop), cleared only by a start that finds the job running.','start, signal(KILL), start, start','C04 (C04/spawn-after-unreaped-drop/after-Start) after length-4 forceful scripts joined the quick tier'),
 'C05-d':('C05','restart mode with --stop-timeout 0 sends signal(ForceStop); start() instead of restart_with_signal.','-r with a stop timeout of exactly zero and a change mid-run','C05 (C05/restart/no-run-after-last-change, wrong-stop-signal)'),
 'C06-d':('C06','Signal::Custom(n) passed to the child by raw number: unnamed numbers make the signal call fail before the timer is armed.','stop_with_signal(Custom(0 | negative | out of range))','C06 (C06/signal-mapping/...)'),
 'C07-d':('C07','zero-grace GracefulStop kills and reaps inline without raising the wait-for-end flags.','grace exactly zero with an outstanding to_wait ticket','C07 (C07/ticket-open/ToWait/child-ended/...)'),
 'C08-d':('C08','a graceful quit with zero grace takes the abort path.','quit_gracefully(_, ZERO) / CLI --stop-timeout 0 with a grouped command that forked','C08 (C08/cli-shutdown-wrong-signal/...)'),
 'C09-d':('C09','the already-expired fast path of recv always returns Stop.','try_restart_with_signal with zero grace on a child that survives the signal','C09 (not-a-model-trace/...)'),
 'C10-d':('C10','control queues bounded at 1024, try_send, full queue silently dropped.','more than 1024 controls pending at one priority','C10 (C10/control-never-ran, ...) after long-queue scenarios were added'),
 'C11-d':('C11','whitelist compared by OS string instead of by path.','the watched file named with a doubled separator, a dot component or a trailing separator','C11 (C11/whitelisted-file-rejected/other-spelling-of-the-path/...) after spelling probes were added'),
 'C12-d':('C12','IgnoreFilter::new joins same-scope file contents without a separator.','an ignore file without a final newline followed by another file of the same scope','C12 (C12/source-removed-by-unrelated-flag/...) after the fixture got files without a final newline; C03 (alternate fixture)'),
 'C13-d':('C13','"pathset unchanged" fast path compares lengths and membership.','a configured path list with duplicate entries of the same length as the registered set','C13 (C13/stale-path-still-registered) after duplicate entries joined the alphabet'),
 'C14-d':('C14','find_file requires meta.len() > 1.','a one-byte ignore file','C14 (C14/missed/...) after one-byte contents joined the grammar'),
 'C15-d':('C15','watch/unwatch failures of one pass are sent with reserve_many(n), which fails outright when n exceeds the queue capacity.','more failing paths in one change than error_channel_size','C15 (C15/main-ended-without-critical-error, C15/watcher-errors-missing)'),
 'C18-d':('C18','grouped tested before session in to_spawnable.','session: true together with grouped: true','C18 (C18/inspect/wrap/session)'),
 'C20-d':('C20','origins() canonicalises the start path.','a start path through a symlinked directory','C20 (C20/origins/.../symlinked-directory) after the symlinked-chain leg was added'),
}
for name,(prop,what,needs,caught) in M.items():
    d=f'/verif/seeded/{name}'
    if not os.path.isdir(d) or not os.path.exists(f'{d}/patch.diff'): continue
    log=open(f'{d}/confirm.log').read() if os.path.exists(f'{d}/confirm.log') else ''
    res=[l for l in log.splitlines() if l.startswith('RESULT')]
    matrix={}
    mp='/verif/seeded/MATRIX.json'
    if os.path.exists(mp):
        matrix=json.load(open(mp)).get(name,{})
    meta={'name':name,'breaks_property':prop,'change':what,'needs_to_manifest':needs,
      'origin':'written by an independent sub-agent given only the property text and a scratch worktree of /repo',
      'confirmed':{'how':'tools/confirm_seed.sh in the scratch worktree: repository suite with the patch (cargo nextest, 116 tests), demonstration with the patch (must fail), demonstration without the patch (must pass)','result':res[-1] if res else 'unknown'},
      'detected_by':caught,
      'quick_checks_reporting_a_violation':sorted([c for c,v in matrix.items() if v.get('exit')==1])}
    json.dump(meta,open(f'{d}/meta.json','w'),indent=1)
    print(name,(res[-1] if res else '??')[:90])

# ---- regenerate the seed table of DESIGN.md (between the SEEDS markers)
def design_table():
    p='/verif/DESIGN.md'
    s=open(p).read()
    mp='/verif/seeded/MATRIX.json'
    matrix=json.load(open(mp)) if os.path.exists(mp) else {}
    rows=['| seed | seeded change | what it needs to manifest | quick checks reporting it (seed matrix) | note |','|---|---|---|---|---|']
    for name,(prop,what,needs,caught) in sorted(M.items()):
        d=f'/verif/seeded/{name}'
        if not os.path.exists(f'{d}/patch.diff'): continue
        hit=' '.join(sorted(c for c,v in matrix.get(name,{}).items() if v.get('exit')==1)) or '(matrix not run yet)'
        note='after strengthening (14.4)' if 'after' in caught else 'as built'
        rows.append(f"| {name} | {what} | {needs} | {hit} | {note} |")
    table='\n'.join(rows)
    b,e='<!-- SEEDS-BEGIN -->','<!-- SEEDS-END -->'
    if b in s and e in s:
        s=s[:s.index(b)+len(b)]+'\n'+table+'\n'+s[s.index(e):]
        open(p,'w').write(s)
        print('DESIGN.md seed table regenerated:',len(rows)-2,'seeds')
design_table()
