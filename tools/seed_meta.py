#!/usr/bin/env python3
"""(Re)write seeded/<name>/meta.json from the table below + the confirmation log."""
import json, os
M={
 'C01-a':('C01','The two urgent special cases of throttle_collect merged into an early return of only the urgent event: events already collected in the open window are dropped.','an urgent event arriving while a throttle window holds accepted events','C01 (C01/accepted-event-lost/...), C02, C15 (conservation clause)'),
 'C02-a':('C02','config.throttle read once before the collect loop instead of per iteration: the first batch after a run-time throttle change made while the worker is idle uses the old duration.','run-time throttle change while idle, then events','C02 (C02/batch-before-window-elapsed/after-runtime-throttle-change) after B1 was strengthened to the throttle in force since the first event was sent'),
 'C03-a':('C03','the component-wise-ancestor check of match_path runs only on the first lookup: on the second hop of the walk (from a nested directory without a match) a name-prefix sibling is accepted again.','test/ and tests/ siblings, an ignore file in test/, an ignore file *below* tests/ (none in tests/ itself) that does not match, probe under that nested directory','C03 (C03/scope/...) after the quick tier gained 3-file "prefix-sibling chain" configurations (it was only in the thorough tier before)'),
 'C04-a':('C04','A raw Control::ContinueTryGracefulRestart (public Job::control()) sent while the command runs and no graceful restart is pending: the running child is forgotten (dropped) without kill+wait and a new one spawned.','multi-step sequence with an unusual control: Start, then ContinueTryGracefulRestart with nothing pending','C04 (C04/spawn-after-unreaped-drop/...) after the alphabet gained the raw continue control and the oracle the "no spawn after an unreaped drop" clause; C09 too'),
 'C05-a':('C05','restart mode uses try_restart_with_signal instead of restart_with_signal: if the command has ended by the time the control runs (e.g. it exits during --delay-run) nothing is started.','-r with the command exiting between the handler\'s "is running" query and the restart control (widened by --delay-run)','C05 (C05/restart/no-run-after-last-change)'),
 'C06-a':('C06','The reset of the restart-on-end flag in the forced continuation is moved into an unreachable else branch: after a graceful try-restart whose grace expires, the replacement own exit spawns the command again.','try_restart_with_signal, child outlives the grace period, then the replacement ends by itself (or via a later graceful stop)','C06 (C06/restart-replacement-count-2/...), C09 (unexpected spawn)'),
 'C07-a':('C07','The error arm of the respawn in the graceful-restart continuation no longer raises the ticket flag.','try_restart_with_signal + child exits within grace + spawn failure at exactly that respawn','C07 (C07/ticket-open/TryGRestart/...), C09 (tickets differ at quiescence)'),
 'C08-a':('C08','LateJoinSet::drop clears the handle list before aborting: an abort quit no longer aborts job tasks.','abort quit while a clone of the job handle is held outside the handler (the control queue stays open, so the job task and its command live on)','C08 (C08/process-left-behind/<class>+HeldOutside, ...)'),
 'C09-a':('C09','the reset of the restart-on-end flag moved from the top to the bottom of the ContinueTryGracefulRestart arm: its three early returns (kill / wait / spawn errors) leave the flag set.','try_restart_with_signal, child outlives grace, a failure exactly at the forced respawn, a later start, and that process ending by itself','C09 (C09/not-a-model-trace/unexpected-spawn/after-TryGRestart), C06'),
 'C10-a':('C10','urgent and high arms of the biased select used while a grace timer is armed are swapped.','grace timer armed, job parked in recv with empty queues, a high and an urgent control both arrive before it wakes','C10 (C10/high-ran-while-urgent-pending) after markers at high/urgent priority were added through the verif_control seam'),
 'C11-a':('C11','paths.any(closure) rewritten as a loop whose ignore branch returns Ok(false) instead of continuing: a multi-path event is rejected as soon as one path matches an ignore pattern.','multi-path event with the ignored path first','C11 (C11/L4/.../two-paths)'),
 'C12-a':('C12','early return from dirs::ignores() when nothing was discovered, before the explicit --ignore-file entries are appended.','--no-project-ignore together with nothing coming from the environment (e.g. --no-global-ignore), plus --ignore-file','C12 (C12/explicit-option-not-honoured/--ignore-file/...)'),
 'C13-a':('C13','unwatch loop moved after the watch loop in the fs worker: flipping the recursion mode of an already watched path registers then unregisters it.','pathset change that keeps a path but flips its recursive flag','C13 (C13/configured-path-not-registered)'),
 'C14-a':('C14','per-directory "recompile once": only the last ignore file found in a directory is loaded into the pruning filter.','a directory holding two ignore files of different kinds where the earlier one decides whether a subdirectory is ignored','C14 (C14/returned-from-pruned-subtree/ignored-directory)'),
 'C15-a':('C15','the filter-error send is wrapped in timeout(maxtime, ..): with a full error queue and a slow error handler the error is dropped silently when the window ends.','error queue full + error handler slower than the throttle window + an accepted event already in the window + a filter error in the same window','C15 (C15/filter-error-not-reported) after the slow-consumer scheduling mode was added'),
 'C16-a':('C16','the three code-carrying completion arms of the JSON decoder merged through an i32 conversion: error codes outside i32 parse back as Unknown.','ExitError with a code outside the i32 range','C16 (C16/roundtrip/completion/error, C16/decode/completion/error/code-wide/...)'),
 'C17-a':('C17','entry buckets changed from HashSet<OsString>+sort() to BTreeSet<PathBuf>: component order instead of byte order.','same kind carrying a directory and a sibling whose name extends it with a byte below "/" (conf/ and conf.d/)','C17 (C17/env/not-byte-sorted/...)'),
 'C18-a':('C18','?','?','?'),
 'C19-a':('C19','?','?','?'),
 'C20-a':('C20','?','?','?'),
}
for name,(prop,what,needs,caught) in M.items():
    d=f'/verif/seeded/{name}'
    if not os.path.isdir(d) or not os.path.exists(f'{d}/patch.diff'): continue
    log=open(f'{d}/confirm.log').read() if os.path.exists(f'{d}/confirm.log') else ''
    res=[l for l in log.splitlines() if l.startswith('RESULT')]
    matrix={}
    mp='/verif/seeded/MATRIX.json'
    if os.path.exists(mp):
        matrix=json.load(open(mp)).get(name,{})
    meta={'name':name,'breaks_property':prop,'change':what,'needs_to_manifest':needs,
      'origin':'written by an independent sub-agent given only the property text and a scratch worktree of /repo',
      'confirmed':{'how':'tools/confirm_seed.sh in the scratch worktree: repository suite with the patch (cargo nextest, 116 tests), demonstration with the patch (must fail), demonstration without the patch (must pass)','result':res[-1] if res else 'unknown'},
      'detected_by':caught,
      'quick_checks_reporting_a_violation':sorted([c for c,v in matrix.items() if v.get('exit')==1])}
    json.dump(meta,open(f'{d}/meta.json','w'),indent=1)
    print(name,(res[-1] if res else '??')[:90])
