#!/usr/bin/env bash
# MANIFEST.setup_cmd: build the verification framework from files on disk only.
#  1. vendor/tokio  = the locked tokio 1.43.0 from the offline cargo registry + the three DEX seams
#  2. build every harness package against /repo's working tree with the hooks on
set -euo pipefail
cd "$(dirname "$0")"
export CARGO_NET_OFFLINE=true
ROOT=$(pwd)

SRC=$(ls -d "$HOME"/.cargo/registry/src/*/tokio-1.43.0 2>/dev/null | head -1 || true)
if [ -z "$SRC" ]; then echo "setup: tokio-1.43.0 not found in the cargo registry" >&2; exit 2; fi
STAMP="$ROOT/vendor/tokio/.dex-patched"
WANT=$(sha256sum "$ROOT/patches/tokio-1.43.0-dex.patch" | cut -d' ' -f1)
if [ ! -f "$STAMP" ] || [ "$(cat "$STAMP")" != "$WANT" ]; then
  rm -rf "$ROOT/vendor/tokio"
  mkdir -p "$ROOT/vendor"
  cp -r "$SRC" "$ROOT/vendor/tokio"
  rm -f "$ROOT/vendor/tokio/.cargo-checksum.json" "$ROOT/vendor/tokio/.cargo_vcs_info.json"
  if ! patch -s -p1 -d "$ROOT/vendor/tokio" < "$ROOT/patches/tokio-1.43.0-dex.patch"; then
    echo "setup: the DEX patch does not apply to tokio 1.43.0" >&2; exit 2
  fi
  echo "$WANT" > "$STAMP"
fi

cd "$ROOT/engine"
RUSTFLAGS="--cfg watchexec_verif" cargo build --release --offline 2>&1 | tail -3
if [ -d "$ROOT/loomleg" ]; then
  "$ROOT/loomleg/build.sh" || { echo "setup: loom leg failed to build" >&2; exit 2; }
fi
echo "setup: ok"
