//! C01, real leg for the keyboard source: a real `Watchexec` on a real runtime with
//! stdin at end-of-file (this subprocess is started with stdin = /dev/null) must hand
//! exactly one keyboard-EOF event to the action handler. Not an exploration: one
//! deterministic scenario, evidence for the keyboard clause only.

use std::{
	sync::{Arc, Mutex},
	time::Duration,
};

use watchexec::{Config, Watchexec};
use watchexec_events::{Keyboard, Source, Tag};

pub fn main_leg() -> i32 {
	let rt = tokio::runtime::Builder::new_multi_thread().worker_threads(2).enable_all().build().expect("rt");
	let seen: Arc<Mutex<Vec<String>>> = Arc::default();
	let s2 = seen.clone();
	let s3 = seen.clone();
	let res: Result<(), String> = rt.block_on(async move {
		let config = Config::default();
		config.throttle(Duration::ZERO);
		config.on_action(move |a| {
			for e in a.events.iter() {
				s2.lock().unwrap().push(format!("{:?}", e.tags));
			}
			a
		});
		let wx = Watchexec::with_config(config).map_err(|e| e.to_string())?;
		let main = wx.main();
		tokio::time::sleep(Duration::from_millis(100)).await;
		wx.config.keyboard_events(true);
		// wait (generously: the machine may be busy) until the event shows up, then a
		// little longer to catch duplicates
		let t0 = std::time::Instant::now();
		while s3.lock().unwrap().is_empty() && t0.elapsed() < Duration::from_secs(20) {
			tokio::time::sleep(Duration::from_millis(50)).await;
		}
		tokio::time::sleep(Duration::from_millis(400)).await;
		// switching the source off and on again must not invent events
		wx.config.keyboard_events(false);
		tokio::time::sleep(Duration::from_millis(200)).await;
		main.abort();
		Ok(())
	});
	if let Err(e) = res {
		println!("REAL case=keyboard-eof ok=false detail=machinery: {e}");
		return 2;
	}
	let seen = seen.lock().unwrap().clone();
	let want = format!("{:?}", vec![Tag::Source(Source::Keyboard), Tag::Keyboard(Keyboard::Eof)]);
	let n = seen.iter().filter(|s| **s == want).count();
	let ok = n == 1 && seen.len() == 1;
	println!("REAL case=keyboard-eof ok={ok} detail=handler saw {seen:?}; expected exactly one {want}");
	i32::from(!ok)
}
