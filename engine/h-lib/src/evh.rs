//! Event-path harness (C01, C02, C15): a whole `Watchexec` with a scripted filterer,
//! recording action / error handlers and producer tasks, driven by the explorer.

use std::{
	cell::RefCell,
	collections::BTreeMap,
	future::Future,
	pin::Pin,
	sync::{Arc, Mutex},
	task::{Context, Poll, Waker},
	time::Duration,
};

use dex::{
	explore::{choose, Bounds, Exec, Kind, Mode, Point, Policy},
	orch::{Obs, Tier},
	rt,
};
use serde::{Deserialize, Serialize};
use tokio::sync::mpsc;
use watchexec::{
	error::{CriticalError, RuntimeError},
	filter::Filterer,
	Config, ErrorHook, Watchexec,
};
use watchexec_events::{Event, Priority, Source, Tag};

use crate::model;

#[derive(Clone, Copy, Debug, PartialEq, Eq, Hash, Serialize, Deserialize, PartialOrd, Ord)]
pub enum Ev {
	NPass,
	NRej,
	NErr,
	NEmpty,
	LPass,
	HPass,
	HRej,
	URej,
	UEmpty,
	/// a notify event (kind index, number of paths) delivered through the fs source's real
	/// callback; passes the filter
	FsPass(u8, u8),
	/// the same, rejected by the filter
	FsRej(u8, u8),
	/// a real OS signal raised at this process: SIGNALS[i], delivered by the signal source
	Sig(u8),
	/// not an event: `config.filterer(..)` replaces the filterer at run time with one that
	/// inverts the pass / reject verdicts
	SwapFilter,
	/// the same event *value* (equal tags and metadata, normal priority, passes the filter)
	/// sent twice in a row: both are accepted events and both must reach the handler
	NTwin,
}

pub const ALL_EV: [Ev; 9] = [Ev::NPass, Ev::NRej, Ev::NErr, Ev::NEmpty, Ev::LPass, Ev::HPass, Ev::HRej, Ev::URej, Ev::UEmpty];

impl Ev {
	pub fn prio(self) -> Priority {
		match self {
			Ev::LPass => Priority::Low,
			Ev::HPass | Ev::HRej => Priority::High,
			Ev::URej | Ev::UEmpty => Priority::Urgent,
			_ => Priority::Normal,
		}
	}
	pub fn empty(self) -> bool {
		matches!(self, Ev::NEmpty | Ev::UEmpty)
	}
	pub fn urgent(self) -> bool {
		matches!(self, Ev::URej | Ev::UEmpty) || matches!(self, Ev::Sig(i) if SIGNALS[i as usize].2)
	}
	/// scripted filter verdict carried in the event's metadata
	pub fn verdict(self) -> &'static str {
		match self {
			Ev::NRej | Ev::HRej | Ev::URej | Ev::FsRej(..) => "rej",
			Ev::NErr => "err",
			_ => "pass",
		}
	}
	/// must this event, once accepted into the queue, reach the handler?
	pub fn deliverable(self) -> bool {
		self.urgent() || self.empty() || self.verdict() == "pass"
	}
	pub fn bypasses_filter(self) -> bool {
		self.urgent() || self.empty()
	}
	/// how many equal events one script element stands for
	pub fn mult(self) -> usize {
		if self == Ev::NTwin {
			2
		} else {
			1
		}
	}
	pub fn fs(self) -> Option<(u8, u8)> {
		match self {
			Ev::FsPass(k, n) | Ev::FsRej(k, n) => Some((k, n)),
			_ => None,
		}
	}
}

#[derive(Clone, Copy, Debug, PartialEq, Eq, Hash, Serialize, Deserialize)]
pub enum ErrBeh {
	Record,
	/// elevate the j-th error (1-based)
	Elevate(usize),
	/// raise CriticalError::External on the j-th error
	Critical(usize),
	/// the handler replaces itself on its first call
	Replace,
}

#[derive(Clone, Debug, Serialize, Deserialize)]
pub struct EvSc {
	/// (event, producer)
	pub script: Vec<(Ev, u8)>,
	pub chan: usize,
	pub err_chan: usize,
	/// throttle in ticks
	pub throttle: u64,
	/// a run-time throttle change to this value becomes an ENV action
	pub throttle_change: Option<u64>,
	/// configure durations that are not a whole number of milliseconds: `throttle` ticks
	/// stands for (throttle - 1) ticks + 500 µs, which has the same tick-level semantics
	/// (the window ends strictly between two ticks) — "for all throttle durations"
	#[serde(default)]
	pub sub_ms: bool,
	/// the run-time throttle change is made by replacing the public field
	/// (`config.throttle.replace(..)`, no change notification) instead of `Config::throttle()`
	#[serde(default)]
	pub raw_throttle_change: bool,
	pub gated: bool,
	pub horizon: u64,
	pub errh: ErrBeh,
	/// the error-hook task is a slow consumer: it is polled only when ENV releases it
	#[serde(default)]
	pub slow_errh: bool,
}

impl EvSc {
	pub fn base(script: Vec<(Ev, u8)>, throttle: u64) -> Self {
		EvSc { script, chan: 4096, err_chan: 64, throttle, throttle_change: None, sub_ms: false, raw_throttle_change: false, gated: false, horizon: throttle + 2, errh: ErrBeh::Record, slow_errh: false }
	}
}

#[derive(Clone, Debug, PartialEq)]
pub enum L {
	Send { id: usize, ev: Ev, t: u64 },
	Accepted { id: usize, t: u64 },
	SendFailed { id: usize },
	FilterCall { id: usize },
	BatchEnter { n: usize, t: u64, ids: Vec<usize> },
	BatchExit { n: usize, t: u64 },
	HandlerDone,
	ErrH { t: u64, gen: usize, text: String, action: &'static str },
	Throttle { ticks: u64, t: u64 },
	Tick { t: u64 },
	MainEnded { t: u64, result: String },
	Drain,
	Note(String),
	FsTags { id: usize, tags: String },
	Swap { id: usize },
	FsOverflow { id: usize },
}

#[derive(Default)]
pub struct W {
	pub log: Vec<L>,
	pub batches: usize,
	pub errh_calls: usize,
	pub violations: Vec<(String, String)>,
	pub quiescent_checks: u64,
}

thread_local! {
	pub static WORLD: RefCell<W> = RefCell::new(W::default());
}

pub fn w<R>(f: impl FnOnce(&mut W) -> R) -> R {
	WORLD.with(|x| f(&mut x.borrow_mut()))
}

fn render(l: &L) -> String {
	match l {
		L::Send { id, ev, t } => format!("t{t} send #{id} {ev:?}"),
		L::Accepted { id, t } => format!("t{t} accepted #{id}"),
		L::SendFailed { id } => format!("send-failed #{id}"),
		L::FilterCall { id } => format!("filter #{id}"),
		L::BatchEnter { n, t, ids } => format!("t{t} batch{n} enter {ids:?}"),
		L::BatchExit { n, t } => format!("t{t} batch{n} exit"),
		L::HandlerDone => "handler-done".into(),
		L::ErrH { t, gen, text, action } => format!("t{t} errh(gen{gen}) {text} -> {action}"),
		L::Throttle { ticks, t } => format!("t{t} throttle := {ticks}"),
		L::Tick { t } => format!("tick -> t{t}"),
		L::MainEnded { t, result } => format!("t{t} main ended: {result}"),
		L::Drain => "-- drain --".into(),
		L::Note(s) => s.clone(),
		L::FsTags { id, tags } => format!("fs event #{id} tags {tags}"),
		L::Swap { id } => format!("#{id} filterer replaced (verdicts inverted)"),
		L::FsOverflow { id } => format!("fs event #{id} overflowed the event queue"),
	}
}

const EMPTY_ID_BASE: usize = 1000;

/// (OS signal number, portable signal, expected priority class) handled by the signal source
pub const SIGNALS: [(i32, watchexec_signals::Signal, bool); 6] = [
	(1, watchexec_signals::Signal::Hangup, false),
	(2, watchexec_signals::Signal::Interrupt, true),
	(3, watchexec_signals::Signal::Quit, false),
	(15, watchexec_signals::Signal::Terminate, true),
	(10, watchexec_signals::Signal::User1, false),
	(12, watchexec_signals::Signal::User2, false),
];
const SIG_ID_BASE: usize = 5000;

extern "C" {
	fn raise(sig: i32) -> i32;
}

/// Every `notify::EventKind` value.
pub fn all_kinds() -> Vec<notify::EventKind> {
	use notify::event::{AccessKind as A, AccessMode as M, CreateKind as C, DataChange as D, EventKind as K, MetadataKind as Me, ModifyKind as Mo, RemoveKind as R, RenameMode as Rn};
	let mut v = vec![K::Any, K::Other];
	let modes = [M::Any, M::Execute, M::Read, M::Write, M::Other];
	v.extend([K::Access(A::Any), K::Access(A::Read), K::Access(A::Other)]);
	v.extend(modes.iter().map(|m| K::Access(A::Open(*m))));
	v.extend(modes.iter().map(|m| K::Access(A::Close(*m))));
	v.extend([C::Any, C::File, C::Folder, C::Other].map(K::Create));
	v.extend([K::Modify(Mo::Any), K::Modify(Mo::Other)]);
	v.extend([D::Any, D::Size, D::Content, D::Other].map(|d| K::Modify(Mo::Data(d))));
	v.extend([Me::Any, Me::AccessTime, Me::WriteTime, Me::Permissions, Me::Ownership, Me::Extended, Me::Other].map(|d| K::Modify(Mo::Metadata(d))));
	v.extend([Rn::Any, Rn::To, Rn::From, Rn::Both, Rn::Other].map(|d| K::Modify(Mo::Name(d))));
	v.extend([R::Any, R::File, R::Folder, R::Other].map(K::Remove));
	v
}

fn fs_paths(id: usize, n: u8) -> Vec<std::path::PathBuf> {
	// the first path is deliberately not normalised
	(0..n).map(|i| if i == 0 { format!("/w/a/./sub/../f{id}").into() } else { format!("/w/a/g{id}").into() }).collect()
}

fn fs_notify_event(id: usize, ev: Ev) -> notify::Event {
	let (k, n) = ev.fs().expect("fs event");
	let mut e = notify::Event::new(all_kinds()[k as usize]);
	for p in fs_paths(id, n) {
		e = e.add_path(p);
	}
	let e = e.set_info(&format!("{}{id}", if ev.verdict() == "rej" { "rej" } else { "ok" }));
	// every other event also carries the optional process-id attribute a backend may set
	if id % 2 == 1 {
		e.set_process_id(4000 + id as u32)
	} else {
		e
	}
}

/// What `process_event` must turn that notify event into.
fn fs_expected_tags(id: usize, ev: Ev) -> String {
	let (k, n) = ev.fs().expect("fs event");
	let mut tags = vec![Tag::Source(Source::Filesystem), Tag::FileEventKind(all_kinds()[k as usize])];
	for i in 0..n {
		tags.push(Tag::Path { path: if i == 0 { format!("/w/a/f{id}").into() } else { format!("/w/a/g{id}").into() }, file_type: None });
	}
	if id % 2 == 1 {
		tags.push(Tag::Process(4000 + id as u32));
	}
	format!("{tags:?} backend=None")
}

fn event_id(e: &Event) -> usize {
	if let Some(sig) = e.signals().next() {
		if let Some(i) = SIGNALS.iter().position(|(_, s, _)| *s == sig) {
			return SIG_ID_BASE + i;
		}
	}
	if let Some(id) = e.metadata.get("id").and_then(|v| v.first()).and_then(|s| s.parse().ok()) {
		return id;
	}
	e.metadata
		.get("file-event-info")
		.and_then(|v| v.first())
		.and_then(|s| s.trim_start_matches(|c: char| c.is_ascii_alphabetic()).parse().ok())
		.unwrap_or(9999)
}

#[derive(Debug)]
struct ScriptedFilter {
	/// generation 0 = verdicts as scripted; odd generations invert pass / reject
	invert: bool,
}
impl Filterer for ScriptedFilter {
	fn check_event(&self, e: &Event, _p: Priority) -> Result<bool, RuntimeError> {
		let id = event_id(e);
		w(|x| x.log.push(L::FilterCall { id }));
		if e.metadata.get("file-event-info").and_then(|v| v.first()).map_or(false, |s| s.starts_with("rej")) {
			return Ok(self.invert);
		}
		match e.metadata.get("v").and_then(|v| v.first()).map(String::as_str) {
			Some("rej") => Ok(self.invert),
			Some("err") => Err(RuntimeError::External(format!("filter-error-{id}").into())),
			_ => Ok(!self.invert),
		}
	}
}

/// A gate the async action handler waits on; `HandlerDone` opens it once.
#[derive(Clone, Default)]
struct Gate(Arc<Mutex<(usize, Option<Waker>)>>);
impl Gate {
	fn open(&self, n: usize) {
		let mut g = self.0.lock().unwrap();
		g.0 += n;
		if let Some(w) = g.1.take() {
			w.wake();
		}
	}
}
struct GateWait(Gate);
impl Future for GateWait {
	type Output = ();
	fn poll(self: Pin<&mut Self>, cx: &mut Context<'_>) -> Poll<()> {
		let mut g = self.0 .0.lock().unwrap();
		if g.0 > 0 {
			g.0 -= 1;
			Poll::Ready(())
		} else {
			g.1 = Some(cx.waker().clone());
			Poll::Pending
		}
	}
}

fn log_fs_tags(events: &[Event]) {
	for e in events {
		if e.signals().next().is_some() {
			let id = event_id(e);
			w(|x| x.log.push(L::FsTags { id, tags: format!("{:?}", e.tags) }));
		}
		if e.tags.contains(&Tag::Source(Source::Filesystem)) {
			let id = event_id(e);
			w(|x| x.log.push(L::FsTags { id, tags: format!("{:?} backend={:?}", e.tags, e.metadata.get("notify-backend")) }));
		}
	}
}

fn make_event(id: usize, ev: Ev) -> Event {
	let mut e = Event { tags: if ev.empty() { vec![] } else { vec![Tag::Source(Source::Internal)] }, metadata: Default::default() };
	e.metadata.insert("id".into(), vec![id.to_string()]);
	e.metadata.insert("v".into(), vec![ev.verdict().to_string()]);
	e
}

#[derive(Clone, Copy, PartialEq, Eq, Debug)]
enum Act {
	Send(u8),
	Tick,
	HandlerDone,
	SetThrottle,
	RunSlow(u64),
}

/// Spawn ordinal of the error-hook task (learnt from a calibration execution).
static ERRH_ORDINAL: std::sync::atomic::AtomicU64 = std::sync::atomic::AtomicU64::new(0);

pub fn calibrate() {
	let sc = EvSc::base(vec![(Ev::NErr, 0)], 0);
	let _ = run(&sc, Bounds::k(0, Policy::Fifo), &[], "C15");
}

pub fn run(sc: &EvSc, bounds: Bounds, prefix: &[Point], prop: &str) -> Result<Exec<Obs>, String> {
	WORLD.with(|x| *x.borrow_mut() = W::default());
	fakewatcher::install();
	let sc2 = sc.clone();
	let prop2 = prop.to_string();
	let res = rt::run_one(bounds, prefix, true, move || async move {
		// the signal source's 6-way select never has two ready branches here
		rt::set_select_filter(Some(Box::new(|n| n != 6)));
		body(&sc2, bounds, &prop2).await
	});
	fakewatcher::uninstall();
	match res {
		Err(rt::RunError::Panic(m)) => Err(format!("harness panic: {m}")),
		Ok(ex) => Ok(ex),
	}
}

fn install_errh(config: &Config, beh: ErrBeh, gen: usize) {
	let cfg = config.clone();
	config.on_error(move |e: ErrorHook| {
		let n = w(|x| {
			x.errh_calls += 1;
			x.errh_calls
		});
		let mut text = e.error.to_string();
		if let RuntimeError::EventChannelTrySend { .. } = &e.error {
			let dbg = format!("{:?}", e.error);
			if let Some(id) = dbg.split("file-event-info\": [\"").nth(1).and_then(|r| r.split('"').next()).and_then(|s| s.trim_start_matches(|c: char| c.is_ascii_alphabetic()).parse::<usize>().ok()) {
				w(|x| x.log.push(L::FsOverflow { id }));
				text = format!("fs-overflow-{id}");
			}
		}
		let t = rt::now();
		if let Some(o) = tokio::verif::current_task_ordinal() {
			ERRH_ORDINAL.store(o, std::sync::atomic::Ordering::Relaxed);
		}
		let action: &'static str = match beh {
			ErrBeh::Elevate(j) if j == n => {
				e.elevate();
				"elevate"
			}
			ErrBeh::Critical(j) if j == n => {
				e.critical(CriticalError::External("verif-critical".into()));
				"critical"
			}
			ErrBeh::Replace if gen == 0 => {
				install_errh(&cfg, ErrBeh::Record, gen + 1);
				"replace-self"
			}
			_ => "record",
		};
		w(|x| x.log.push(L::ErrH { t, gen, text, action }));
	});
}

async fn body(sc: &EvSc, bounds: Bounds, prop: &str) -> Obs {
	let config = Config::default();
	config.throttle(throttle_duration(sc, sc.throttle));
	config.filterer(ScriptedFilter { invert: false });
	let mut config = config;
	config.event_channel_size = sc.chan;
	config.error_channel_size = sc.err_chan;
	let gate = Gate::default();
	if sc.gated {
		let g = gate.clone();
		config.on_action_async(move |a| {
			let g = g.clone();
			let ids: Vec<usize> = a.events.iter().map(event_id).collect();
			log_fs_tags(&a.events);
			let n = w(|x| {
				x.batches += 1;
				let n = x.batches;
				x.log.push(L::BatchEnter { n, t: rt::now(), ids });
				n
			});
			Box::new(async move {
				GateWait(g).await;
				w(|x| x.log.push(L::BatchExit { n, t: rt::now() }));
				a
			})
		});
	} else {
		config.on_action(move |a| {
			let ids: Vec<usize> = a.events.iter().map(event_id).collect();
			log_fs_tags(&a.events);
			w(|x| {
				x.batches += 1;
				let n = x.batches;
				let t = rt::now();
				x.log.push(L::BatchEnter { n, t, ids });
				x.log.push(L::BatchExit { n, t });
			});
			a
		});
	}
	install_errh(&config, sc.errh, 0);
	let has_fs = sc.script.iter().any(|(e, _)| e.fs().is_some());
	if has_fs {
		config.pathset(["/w/a"]);
	}
	let wx = Arc::new(Watchexec::with_config(config).expect("watchexec"));
	let mut main = wx.main();
	let mut main_done = false;
	// let the main task spawn its workers first, so that their spawn ordinals do not
	// depend on how many producers the scenario has
	let _ = rt::settle_quiet().await;
	if sc.slow_errh {
		let o = ERRH_ORDINAL.load(std::sync::atomic::Ordering::Relaxed);
		if o != 0 {
			rt::mark_slow(o);
		}
	}

	// producers
	let producers: Vec<u8> = {
		let mut p: Vec<u8> = sc.script.iter().map(|(_, p)| *p).collect();
		p.sort_unstable();
		p.dedup();
		p
	};
	let mut txs: BTreeMap<u8, mpsc::UnboundedSender<(usize, Ev)>> = BTreeMap::new();
	for p in &producers {
		let (tx, mut rx) = mpsc::unbounded_channel::<(usize, Ev)>();
		txs.insert(*p, tx);
		let wx = wx.clone();
		tokio::spawn(async move {
			while let Some((id, ev)) = rx.recv().await {
				match wx.send_event(make_event(id, ev), ev.prio()).await {
					Ok(()) => w(|x| x.log.push(L::Accepted { id, t: rt::now() })),
					Err(_) => w(|x| x.log.push(L::SendFailed { id })),
				}
			}
		});
	}
	let per: BTreeMap<u8, Vec<(usize, Ev)>> =
		producers.iter().map(|p| (*p, sc.script.iter().enumerate().filter(|(_, (_, q))| q == p).map(|(i, (e, _))| (i, *e)).collect())).collect();
	let mut cursor: BTreeMap<u8, usize> = producers.iter().map(|p| (*p, 0)).collect();
	let mut throttle_pending = sc.throttle_change;
	let mut livelock = false;
	let default_schedule = matches!(bounds.mode, Mode::Bounded { k: 0 }) && bounds.policy == Policy::Fifo;

	loop {
		let quiescent = match rt::settle(true, || {}).await {
			Ok(q) => q,
			Err(_) => {
				livelock = true;
				break;
			}
		};
		if !main_done && main.is_finished() {
			main_done = true;
			let r = match (&mut main).await {
				Ok(Ok(())) => "Ok".to_string(),
				Ok(Err(e)) => format!("Err({})", crit_name(&e)),
				Err(e) => format!("JoinError({e})"),
			};
			w(|x| x.log.push(L::MainEnded { t: rt::now(), result: r }));
		}
		if quiescent {
			w(|x| x.quiescent_checks += 1);
			if prop == "C15" {
				c15_quiescent(main_done);
			}
		}
		let now = rt::now();
		let in_handler = w(|x| {
			let enters = x.log.iter().filter(|l| matches!(l, L::BatchEnter { .. })).count();
			let dones = x.log.iter().filter(|l| matches!(l, L::HandlerDone)).count();
			// every handler invocation is released at most once
			enters > dones
		});
		let mut menu = vec![];
		for p in &producers {
			if cursor[p] < per[p].len() {
				menu.push(Act::Send(*p));
			}
		}
		if now < sc.horizon {
			menu.push(Act::Tick);
		}
		if sc.gated && in_handler {
			menu.push(Act::HandlerDone);
		}
		if throttle_pending.is_some() {
			menu.push(Act::SetThrottle);
		}
		for o in rt::slow_runnable() {
			menu.push(Act::RunSlow(o));
		}
		if menu.is_empty() {
			if !quiescent {
				continue;
			}
			break;
		}
		match menu[choose(Kind::Env, menu.len())] {
			Act::Send(p) => {
				let (id, ev) = per[&p][cursor[&p]];
				*cursor.get_mut(&p).unwrap() += 1;
				w(|x| x.log.push(L::Send { id, ev, t: now }));
				if ev == Ev::SwapFilter {
					let odd = w(|x| x.log.iter().filter(|l| matches!(l, L::Swap { .. })).count() % 2 == 0);
					w(|x| x.log.push(L::Swap { id }));
					wx.config.filterer(ScriptedFilter { invert: odd });
				} else if let Ev::Sig(i) = ev {
					// a real signal to this very process; the signal source picks it up when
					// the I/O driver turns
					unsafe {
						raise(SIGNALS[i as usize].0);
					}
					tokio::task::yield_now().await;
					tokio::task::yield_now().await;
				} else if ev.fs().is_some() {
					// delivered synchronously from "the watcher's thread" through the callback the
					// fs worker registered, i.e. through the real process_event + try_send
					match fakewatcher::live().first() {
						Some(wi) => fakewatcher::emit(*wi, Ok(fs_notify_event(id, ev))),
						None => w(|x| x.log.push(L::Note(format!("no live watcher for fs event #{id}")))),
					}
				} else {
					for _ in 0..ev.mult() {
						let _ = txs[&p].send((id, ev));
					}
				}
			}
			Act::Tick => {
				rt::tick().await;
				w(|x| x.log.push(L::Tick { t: rt::now() }));
			}
			Act::HandlerDone => {
				w(|x| x.log.push(L::HandlerDone));
				gate.open(1);
			}
			Act::RunSlow(o) => {
				w(|x| x.log.push(L::Note("error hook runs".into())));
				rt::run_slow(o).await;
			}
			Act::SetThrottle => {
				let t = throttle_pending.take().unwrap();
				w(|x| x.log.push(L::Throttle { ticks: t, t: now }));
				if sc.raw_throttle_change {
					wx.config.throttle.replace(throttle_duration(sc, t));
				} else {
					wx.config.throttle(throttle_duration(sc, t));
				}
			}
		}
	}

	// drain: open every gate, let every window end
	if !livelock {
		w(|x| x.log.push(L::Drain));
		gate.open(1000);
		rt::clear_slow();
		// (a never-ending window is not waited for)
		let max_thr = sc.throttle.max(sc.throttle_change.unwrap_or(0)).min(8);
		'drain: for _ in 0..(sc.script.len() as u64 + 2) {
			for _ in 0..=(max_thr + 1) {
				if rt::settle_quiet().await.is_err() {
					livelock = true;
					break 'drain;
				}
				rt::tick().await;
			}
		}
		if rt::settle_quiet().await.is_err() {
			livelock = true;
		}
		if !main_done && main.is_finished() {
			main_done = true;
			let r = match (&mut main).await {
				Ok(Ok(())) => "Ok".to_string(),
				Ok(Err(e)) => format!("Err({})", crit_name(&e)),
				Err(e) => format!("JoinError({e})"),
			};
			w(|x| x.log.push(L::MainEnded { t: rt::now(), result: r }));
		}
	}
	for p in rt::take_panics() {
		if p.contains("/repo/") {
			w(|x| x.violations.push((format!("{prop}/subject-panicked"), p.clone())));
		}
	}
	if livelock {
		w(|x| x.violations.push((format!("{prop}/livelock"), "tasks kept waking each other for 20000 polls".into())));
	} else {
		match prop {
			"C01" => c01_end(sc, main_done),
			"C02" => {
				// "all accepted events that arrive within the window are in that batch"
				// includes that none of them is lost or duplicated
				c01_end(sc, main_done);
				let vs = w(|x| std::mem::take(&mut x.violations));
				for (k, d) in vs {
					push(k.replace("C01/", "C02/conservation/"), d);
				}
				c02_end(sc, default_schedule);
			}
			"C15" => {
				c15_quiescent(main_done);
				c15_end(sc, main_done);
			}
			_ => {}
		}
	}
	drop(txs);
	main.abort();
	// the recording handlers hold clones of the Config they are installed in: break the
	// reference cycle, or every execution leaks its Config
	wx.config.on_error(|_| {});
	wx.config.on_action(|a| a);
	let _ = Duration::ZERO;
	let (log, violations, qc, nontrivial) = w(|x| {
		(
			x.log.iter().map(render).collect::<Vec<_>>(),
			std::mem::take(&mut x.violations),
			x.quiescent_checks,
			x.log.iter().any(|l| matches!(l, L::BatchEnter { .. })),
		)
	});
	Obs { log, violations, nontrivial, counters: vec![("quiescent_instants_checked", qc)] }
}

fn crit_name(e: &CriticalError) -> String {
	match e {
		CriticalError::Elevated { err, .. } => format!("Elevated[{err}]"),
		CriticalError::External(x) => format!("External[{x}]"),
		other => format!("{other}"),
	}
}

fn push(key: String, detail: String) {
	w(|x| {
		if !x.violations.iter().any(|(k, _)| *k == key) {
			x.violations.push((key, detail));
		}
	});
}

/// Which filter was the configured one when event `id` was filtered: the number of
/// replacements before the filter call for that event (None: it was never filtered).
fn inverted_at(log: &[L], id: usize) -> Option<bool> {
	let mut inv = false;
	for l in log {
		match l {
			L::Swap { .. } => inv = !inv,
			L::FilterCall { id: i } if *i == id => return Some(inv),
			_ => {}
		}
	}
	None
}

fn deliverable_at(sc: &EvSc, log: &[L], id: usize) -> bool {
	let c = class_of(sc, id);
	if c == Ev::SwapFilter {
		return false;
	}
	if c.bypasses_filter() || c.verdict() == "err" {
		return c.deliverable();
	}
	match inverted_at(log, id) {
		Some(inv) => c.deliverable() != inv,
		// never filtered (still queued when the run ended): nothing is demanded
		None => false,
	}
}

fn class_of(sc: &EvSc, id: usize) -> Ev {
	sc.script[id].0
}

/// C01: conservation between accepted sends and what the handler saw.
fn c01_end(sc: &EvSc, main_done: bool) {
	let log = w(|x| x.log.clone());
	let accepted: Vec<usize> = log.iter().filter_map(|l| if let L::Accepted { id, .. } = l { Some(*id) } else { None }).collect();
	let mut delivered: BTreeMap<usize, usize> = BTreeMap::new();
	for l in &log {
		if let L::BatchEnter { ids, n, .. } = l {
			if ids.is_empty() {
				push("C01/empty-batch".into(), format!("batch{n} was empty"));
			}
			for id in ids {
				*delivered.entry(*id).or_default() += 1;
			}
		}
	}
	let _ = EMPTY_ID_BASE;
	for (id, n) in &delivered {
		if *id >= SIG_ID_BASE && *id < SIG_ID_BASE + SIGNALS.len() {
			continue; // signal events are accounted for below
		}
		if *id >= sc.script.len() {
			push("C01/unknown-event-delivered".into(), format!("handler saw an event with id {id}"));
			continue;
		}
		let c = class_of(sc, *id);
		if !deliverable_at(sc, &log, *id) {
			push(format!("C01/rejected-event-delivered/{c:?}"), format!("event #{id} ({c:?}) was handed to the handler although the filter in force rejects it"));
		}
		if *n > c.mult() {
			push(format!("C01/delivered-twice/{c:?}"), format!("event #{id} ({c:?}, sent {} times) was delivered {n} times", c.mult()));
		}
	}
	if !main_done {
		for id in &accepted {
			let c = class_of(sc, *id);
			// with a never-ending window whatever no urgent event flushed is legitimately
			// still being collected at the end
			let never_ending = sc.throttle >= HUGE && sc.throttle_change.map_or(true, |t| t >= HUGE);
			let n_acc = accepted.iter().filter(|a| *a == id).count();
			let n_del = delivered.get(id).copied().unwrap_or(0);
			if deliverable_at(sc, &log, *id) && n_del < n_acc && !never_ending {
				push(
					format!("C01/accepted-event-lost/{c:?}"),
					format!("event #{id} ({c:?}) was accepted into the queue {n_acc} time(s) but delivered {n_del} time(s)"),
				);
			}
		}
	}
	for l in &log {
		if let L::FilterCall { id } = l {
			if *id < sc.script.len() && class_of(sc, *id).bypasses_filter() {
				push(format!("C01/filter-called-for-bypass/{:?}", class_of(sc, *id)), format!("the filter was consulted for event #{id}"));
			}
		}
	}
	// OS signals: raised one at a time at quiescent instants (default schedule), each is
	// handed to the handler exactly once, tagged with its source and the portable signal
	for (i, (num, sig, _)) in SIGNALS.iter().enumerate() {
		let raised = sc.script.iter().enumerate().filter(|(id, (e, _))| *e == Ev::Sig(i as u8) && log.iter().any(|l| matches!(l, L::Send { id: x, .. } if x == id))).count();
		let seen = delivered.get(&(SIG_ID_BASE + i)).copied().unwrap_or(0);
		if raised != seen && !main_done {
			push(format!("C01/signal-event-count/{sig:?}"), format!("signal {num} raised {raised} times, the handler saw {seen} events for it"));
		}
		// interrupt and terminate are urgent: they flush the window at once (these scenarios
		// run on the default schedule, where the raise is observed at a quiescent instant)
		if SIGNALS[i].2 {
			for (sid, (e, _)) in sc.script.iter().enumerate() {
				if *e != Ev::Sig(i as u8) {
					continue;
				}
				let Some(ts) = log.iter().find_map(|l| if let L::Send { id, t, .. } = l { (*id == sid).then_some(*t) } else { None }) else { continue };
				let entered = log.iter().find_map(|l| if let L::BatchEnter { ids, t, .. } = l { (ids.contains(&(SIG_ID_BASE + i)) && *t >= ts).then_some(*t) } else { None });
				if let Some(te) = entered {
					if te != ts {
						push(format!("C01/signal-not-urgent/{sig:?}"), format!("signal {num} raised at t{ts} reached the handler only at t{te}"));
					}
				}
			}
		}
		for l in &log {
			if let L::FsTags { id, tags } = l {
				if *id == SIG_ID_BASE + i {
					let want = format!("{:?}", vec![Tag::Source(if *sig == watchexec_signals::Signal::Interrupt { Source::Keyboard } else { Source::Os }), Tag::Signal(*sig)]);
					if *tags != want {
						push(format!("C01/signal-event-tags/{sig:?}"), format!("handler saw tags {tags}, expected {want}"));
					}
				}
			}
		}
	}
	// filesystem events: each one emitted through the watcher callback is either handed to
	// the handler exactly once (if the filter accepts it), converted as documented, or
	// reported as an event-queue overflow exactly once
	let overflow_errors = log.iter().filter(|l| matches!(l, L::ErrH { text, .. } if text.contains("from fs watcher"))).count();
	let watcher_missing = log.iter().any(|l| matches!(l, L::Note(s) if s.starts_with("no live watcher")));
	let mut unaccounted: Vec<usize> = vec![];
	for (id, (ev, _)) in sc.script.iter().enumerate() {
		if ev.fs().is_none() || watcher_missing {
			continue;
		}
		let sent = log.iter().any(|l| matches!(l, L::Send { id: i, .. } if *i == id));
		if !sent {
			continue;
		}
		let n_del = delivered.get(&id).copied().unwrap_or(0);
		let filtered = log.iter().any(|l| matches!(l, L::FilterCall { id: i } if *i == id));
		if n_del == 0 && !(filtered && !ev.deliverable()) {
			// neither delivered nor rejected by the filter: must have overflowed the queue
			unaccounted.push(id);
		}
		if let Some(tags) = log.iter().find_map(|l| if let L::FsTags { id: i, tags } = l { (*i == id).then(|| tags.clone()) } else { None }) {
			let want = fs_expected_tags(id, *ev);
			if tags != want {
				let k = ev.fs().map_or(0, |x| x.0);
				push(format!("C01/fs-event-conversion/{:?}", all_kinds()[k as usize]), format!("fs event #{id}: handler saw tags {tags}, expected {want}"));
			}
		}
	}
	if !main_done && sc.err_chan >= sc.script.len() {
		if unaccounted.len() > overflow_errors {
			push(
				"C01/fs-event-lost".into(),
				format!("fs events {unaccounted:?} were neither delivered nor filtered, but only {overflow_errors} queue-overflow errors were reported"),
			);
		}
		if overflow_errors > unaccounted.len() {
			push(
				"C01/fs-event-overflow-reported-but-delivered".into(),
				format!("{overflow_errors} queue-overflow errors for {} undelivered fs events", unaccounted.len()),
			);
		}
	}
	if watcher_missing {
		push("C01/fs-source-has-no-watcher".into(), "a path set was configured but no watcher was live when the change happened".into());
	}
}

/// The configured duration for a throttle of `ticks` ticks (see `EvSc::sub_ms`).
/// A throttle of this many ticks stands for `Duration::MAX` (a window that never ends by
/// itself: only an urgent event hands anything over).
pub const HUGE: u64 = u64::MAX / 4;

fn throttle_duration(sc: &EvSc, ticks: u64) -> std::time::Duration {
	if ticks >= HUGE {
		std::time::Duration::MAX
	} else if sc.sub_ms && ticks >= 1 {
		rt::TICK * (ticks - 1) as u32 + std::time::Duration::from_micros(500)
	} else {
		rt::TICK * ticks as u32
	}
}

/// C02: lower bound in every schedule; exact agreement with the DebounceModel on the
/// default schedule with a fixed throttle.
fn c02_end(sc: &EvSc, default_schedule: bool) {
	let log = w(|x| x.log.clone());
	let send_t: BTreeMap<usize, u64> = log.iter().filter_map(|l| if let L::Send { id, t, .. } = l { Some((*id, *t)) } else { None }).collect();
	// B1: a batch without urgent events is entered no earlier than send(first) + throttle,
	// where "throttle" is the smallest value in force at any moment between the send of
	// the batch's first event and the handler entry (a change that happened before the
	// first event was sent is fully in force; one that lands mid-window may or may not
	// be picked up by a worker already waiting on the old window)
	for (pe, l) in log.iter().enumerate() {
		if let L::BatchEnter { ids, t, n } = l {
			if ids.is_empty() || ids.iter().any(|i| *i < sc.script.len() && class_of(sc, *i).urgent()) {
				continue;
			}
			// the batch's first event = the one sent first (a batch may be handed over in any order)
			let Some((ps, first)) = log.iter().enumerate().find_map(|(p, x)| if let L::Send { id, .. } = x { ids.contains(id).then_some((p, *id)) } else { None }) else { continue };
			let Some(ts) = send_t.get(&first) else { continue };
			let mut in_force = sc.throttle;
			for x in &log[..ps] {
				if let L::Throttle { ticks, .. } = x {
					in_force = *ticks;
				}
			}
			let mut min_thr = in_force;
			for x in &log[ps..pe] {
				if let L::Throttle { ticks, .. } = x {
					min_thr = min_thr.min(*ticks);
				}
			}
			if *t < ts + min_thr {
				push(
					if sc.throttle_change.is_some() { "C02/batch-before-window-elapsed/after-runtime-throttle-change".into() } else { "C02/batch-before-window-elapsed".into() },
					format!("batch{n} {ids:?} entered at t{t}, its first event was sent at t{ts}, throttle in force {min_thr}"),
				);
			}
		}
	}
	// B2/B3: exact batches and delivery ticks
	if default_schedule && sc.throttle_change.is_none() {
		// the model covers the ENV phase; the drain phase (gates opened, time advanced) is
		// not modelled, so compare the batches entered before the drain began
		let dpos = log.iter().position(|l| matches!(l, L::Drain)).unwrap_or(log.len());
		let expected = model::debounce(sc, &log[..dpos]);
		let got: Vec<(u64, Vec<usize>)> = log[..dpos]
			.iter()
			.filter_map(|l| if let L::BatchEnter { ids, t, .. } = l { Some((*t, { let mut v = ids.clone(); v.sort_unstable(); v })) } else { None })
			.collect();
		if !expected.contains(&got) && model::clauses(sc, &log[..dpos]).is_err() {
			let why = model::clauses(sc, &log[..dpos]).err().unwrap_or_default();
			let e0 = &expected[0];
			let kind = if got.len() != e0.len() {
				"batch-count"
			} else if e0.iter().zip(&got).any(|(a, b)| a.1 != b.1) {
				"batch-composition"
			} else {
				"delivery-time"
			};
			push(format!("C02/differs-from-debounce-model/{kind}"), format!("model expects (time, batch) {expected:?}, handler saw {got:?}; clause violated: {why}"));
		}
	}
}

fn c15_quiescent(main_done: bool) {
	let log = w(|x| x.log.clone());
	let fatal_pos = log.iter().position(|l| matches!(l, L::ErrH { action: "elevate" | "critical", .. }));
	match fatal_pos {
		None => {
			if main_done {
				let r = log.iter().find_map(|l| if let L::MainEnded { result, .. } = l { Some(result.clone()) } else { None }).unwrap_or_default();
				push("C15/main-ended-without-critical-error".into(), format!("main task ended ({r}) although the error handler never elevated"));
			}
		}
		Some(p) => {
			if !main_done {
				push("C15/main-still-running-after-critical".into(), "the handler elevated / raised a critical error but the main task is still running at the next quiescent instant".into());
			}
			if log[p + 1..].iter().any(|l| matches!(l, L::ErrH { .. })) {
				push("C15/handler-called-after-critical".into(), "error handler invoked again after it had raised a critical error".into());
			}
		}
	}
}

fn c15_end(sc: &EvSc, main_done: bool) {
	let log = w(|x| x.log.clone());
	// what the filter actually errored on (it was consulted => the worker received it)
	let errored: Vec<usize> =
		log.iter().filter_map(|l| if let L::FilterCall { id } = l { Some(*id) } else { None }).filter(|id| *id < sc.script.len() && class_of(sc, *id) == Ev::NErr).collect();
	let fatal_pos = log.iter().position(|l| matches!(l, L::ErrH { action: "elevate" | "critical", .. }));
	for id in &errored {
		let n = log.iter().filter(|l| matches!(l, L::ErrH { text, .. } if text.contains(&format!("filter-error-{id}")))).count();
		if n > 1 {
			push("C15/filter-error-reported-twice".into(), format!("error of event #{id} reached the handler {n} times"));
		}
		if n == 0 && fatal_pos.is_none() {
			push("C15/filter-error-not-reported".into(), format!("the filter errored on event #{id} but the error handler never saw it"));
		}
	}
	// unknown errors
	for l in &log {
		if let L::ErrH { text, .. } = l {
			if !text.contains("filter-error-") {
				push("C15/unexpected-runtime-error".into(), format!("error handler saw: {text}"));
			}
		}
	}
	// the result of main
	if let Some(p) = fatal_pos {
		let (action, text) = if let L::ErrH { action, text, .. } = &log[p] { (*action, text.clone()) } else { unreachable!() };
		let r = log.iter().find_map(|l| if let L::MainEnded { result, .. } = l { Some(result.clone()) } else { None });
		let ok = match (&r, action) {
			(Some(r), "elevate") => r.starts_with("Err(Elevated[") && r.contains(&text),
			(Some(r), "critical") => r == "Err(External[verif-critical])",
			_ => false,
		};
		if !ok {
			push(format!("C15/wrong-main-result-after-{action}"), format!("main result {r:?} after the handler chose {action} on {text:?}"));
		}
	} else {
		// no critical error: everything else must have been processed (C01's conservation)
		c01_end(sc, main_done);
		let vs = w(|x| std::mem::take(&mut x.violations));
		for (k, d) in vs {
			push(k.replace("C01/", "C15/other-events/"), d);
		}
	}
}

// ---------------------------------------------------------------------------------

fn seqs(alpha: &[Ev], len: usize) -> Vec<Vec<Ev>> {
	let mut out: Vec<Vec<Ev>> = vec![vec![]];
	for _ in 0..len {
		out = out
			.into_iter()
			.flat_map(|s| {
				alpha.iter().map(move |o| {
					let mut s = s.clone();
					s.push(*o);
					s
				})
			})
			.collect();
	}
	out
}

fn upto(alpha: &[Ev], len: usize) -> Vec<Vec<Ev>> {
	(1..=len).flat_map(|l| seqs(alpha, l)).collect()
}

fn both(k: usize) -> Vec<Bounds> {
	if k == 0 {
		vec![Bounds::k(0, Policy::Fifo)]
	} else {
		vec![Bounds::k(k, Policy::Fifo), Bounds::k(k, Policy::Lifo)]
	}
}

fn ladder(k: usize) -> Vec<Bounds> {
	(0..=k).flat_map(both).collect()
}

pub fn scenarios(prop: &str, tier: Tier) -> Vec<(EvSc, Vec<Bounds>)> {
	let mut out = vec![];
	match prop {
		"C01" => {
			let (len, k): (usize, usize) = match tier {
				Tier::Quick => (3, 1),
				Tier::Thorough => (4, 2),
			};
			let core5 = [Ev::NPass, Ev::NRej, Ev::NErr, Ev::URej, Ev::NEmpty];
			let mut scripts = upto(&ALL_EV, len.min(3));
			if len >= 4 {
				// the longest scripts of the thorough tier: five event classes, two configurations
				scripts.extend(seqs(&core5, 4));
			}
			for s in scripts {
				let l = s.len();
				let passes = if l == len { ladder(k.saturating_sub(1)) } else { ladder(k) };
				let long = l >= 4;
				for thr in [0u64, 2] {
					if long && thr == 0 {
						continue;
					}
					// one producer, large queue, sync and gated handler
					for gated in [false, true] {
						if long && gated {
							continue;
						}
						let mut sc = EvSc::base(s.iter().map(|e| (*e, 0)).collect(), thr);
						sc.gated = gated;
						out.push((sc, passes.clone()));
					}
				}
				// small queues force producers to block (gated handler keeps the worker busy)
				if l >= 2 {
					for chan in [1usize, 2] {
						if long && chan == 2 {
							continue;
						}
						let mut sc = EvSc::base(s.iter().map(|e| (*e, 0)).collect(), 2);
						sc.gated = true;
						sc.chan = chan;
						sc.err_chan = 1;
						out.push((sc, passes.clone()));
					}
					// two producers: split in every order-preserving way (one representative
					// split per script: alternate)
					if !long {
						let mut sc = EvSc::base(s.iter().enumerate().map(|(i, e)| (*e, (i % 2) as u8)).collect(), 2);
						sc.gated = true;
						sc.chan = 1;
						out.push((sc, passes.clone()));
					}
				}
			}
		}
		"C01fs" => {}
		"C02" => {
			let (len, k): (usize, usize) = match tier {
				Tier::Quick => (3, 1),
				Tier::Thorough => (5, 2),
			};
			let alpha = [Ev::NPass, Ev::NRej, Ev::HPass, Ev::URej, Ev::NEmpty];
			for s in upto(&alpha, len) {
				let l = s.len();
				let passes = if l >= 4 { ladder(0) } else if l == len { ladder(k.saturating_sub(1)) } else { ladder(k) };
				let thrs: &[u64] = match tier {
					Tier::Quick => &[0, 2],
					Tier::Thorough => &[0, 1, 3],
				};
				for thr in thrs {
					let mut sc = EvSc::base(s.iter().map(|e| (*e, 0)).collect(), *thr);
					sc.horizon = thr + 3;
					out.push((sc.clone(), passes.clone()));
					if l <= 3 {
						sc.gated = true;
						out.push((sc.clone(), passes.clone()));
						sc.gated = false;
					}
					// a run-time throttle change (only the lower bound is demanded then)
					if l <= 3 && *thr > 0 {
						for to in [0u64, thr + 1] {
							let mut c = sc.clone();
							c.throttle_change = Some(to);
							out.push((c.clone(), passes.clone()));
							let mut raw = c.clone();
							raw.raw_throttle_change = true;
							out.push((raw, ladder(0)));
							if to > 0 {
								c.sub_ms = true;
								out.push((c, ladder(0)));
							}
						}
					}
					// a window that never ends (Duration::MAX): nothing but an urgent event
					// hands a batch over
					if l <= 3 && *thr == thrs[0] {
						let mut c = sc.clone();
						c.throttle = HUGE;
						c.horizon = 3;
						out.push((c, ladder(0)));
					}
					// durations that are not whole milliseconds (also below one millisecond)
					if l <= 3 {
						let mut c = sc.clone();
						c.throttle = (*thr).max(1);
						c.horizon = c.throttle + 3;
						c.sub_ms = true;
						out.push((c, ladder(0)));
					}
				}
			}
		}
		"C15" => {
			let (len, k): (usize, usize) = match tier {
				Tier::Quick => (3, 1),
				Tier::Thorough => (4, 2),
			};
			let alpha = [Ev::NErr, Ev::NPass, Ev::NRej, Ev::URej];
			for s in upto(&alpha, len) {
				if !s.contains(&Ev::NErr) {
					continue;
				}
				let l = s.len();
				let passes = if l == len { ladder(k.saturating_sub(1)) } else { ladder(k) };
				let nerr = s.iter().filter(|e| **e == Ev::NErr).count();
				let mut behs = vec![ErrBeh::Record, ErrBeh::Replace];
				for j in 1..=nerr {
					behs.push(ErrBeh::Elevate(j));
					behs.push(ErrBeh::Critical(j));
				}
				for beh in behs {
					for (chan, err_chan, gated) in [(4096usize, 64usize, false), (1, 1, true), (2, 2, false)] {
						let mut sc = EvSc::base(s.iter().map(|e| (*e, 0)).collect(), 2);
						sc.errh = beh;
						sc.chan = chan;
						sc.err_chan = err_chan;
						sc.gated = gated;
						out.push((sc, passes.clone()));
					}
				}
			}
		}
		_ => {}
	}
	if prop == "C01" {
		// equal event values in a row (same tags, same metadata): each is an accepted event
		let alpha = [Ev::NTwin, Ev::NPass, Ev::URej];
		for s in upto(&alpha, 2) {
			if !s.contains(&Ev::NTwin) {
				continue;
			}
			for thr in [0u64, 2] {
				for gated in [false, true] {
					let mut sc = EvSc::base(s.iter().map(|e| (*e, 0)).collect(), thr);
					sc.gated = gated;
					out.push((sc, ladder(1)));
				}
			}
		}
		// a filterer replaced at run time is the configured filter from then on (default
		// schedule only: the event is filtered at the quiescent instant of its send)
		let alpha = [Ev::NPass, Ev::NRej, Ev::HRej, Ev::SwapFilter];
		for s in upto(&alpha, if tier == Tier::Thorough { 4 } else { 3 }) {
			if !s.contains(&Ev::SwapFilter) || s.iter().all(|e| *e == Ev::SwapFilter) {
				continue;
			}
			for thr in [0u64, 2] {
				for gated in [false, true] {
					let mut sc = EvSc::base(s.iter().map(|e| (*e, 0)).collect(), thr);
					sc.gated = gated;
					out.push((sc, ladder(0)));
				}
			}
		}
		// the signal source: each handled signal alone, and around a synthetic event
		for i in 0..SIGNALS.len() as u8 {
			for s in [vec![Ev::Sig(i)], vec![Ev::NPass, Ev::Sig(i)], vec![Ev::Sig(i), Ev::NPass], vec![Ev::Sig(i), Ev::Sig((i + 1) % 6)]] {
				for thr in [0u64, 2] {
					out.push((EvSc::base(s.iter().map(|e| (*e, 0)).collect(), thr), ladder(0)));
				}
			}
		}
		// the fs source: every notify event kind x {0,1,2} paths through the real callback
		let nk = all_kinds().len() as u8;
		for k in 0..nk {
			for n in 0..=2u8 {
				let mut sc = EvSc::base(vec![(Ev::FsPass(k, n), 0)], 0);
				sc.horizon = 1;
				out.push((sc, ladder(0)));
			}
		}
		// bursts against a small event queue while the handler is busy (overflow path), and
		// mixed with synthetic sends and rejected fs events
		let (len, k): (usize, usize) = match tier {
			Tier::Quick => (3, 1),
			Tier::Thorough => (4, 2),
		};
		let content = 13u8; // Modify(Data(Content))
		let alpha = [Ev::FsPass(content, 1), Ev::FsRej(content, 1), Ev::FsPass(2, 2), Ev::NPass];
		for s in upto(&alpha, len) {
			if !s.iter().any(|e| e.fs().is_some()) {
				continue;
			}
			let l = s.len();
			let passes = if l == len { ladder(k.saturating_sub(1)) } else { ladder(k) };
			for (chan, gated, thr) in [(1usize, true, 2u64), (2, true, 0), (4096, false, 2)] {
				let mut sc = EvSc::base(s.iter().map(|e| (*e, 0)).collect(), thr);
				sc.chan = chan;
				sc.gated = gated;
				out.push((sc, passes.clone()));
			}
		}
	}
	if prop == "C15" {
		// a slow error handler: the hook task falls behind while events keep flowing
		let len: usize = match tier {
			Tier::Quick => 3,
			Tier::Thorough => 4,
		};
		let alpha = [Ev::NErr, Ev::NPass];
		for s in upto(&alpha, len) {
			if s.iter().filter(|e| **e == Ev::NErr).count() < 2 {
				continue;
			}
			for err_chan in [1usize, 2] {
				let mut sc = EvSc::base(s.iter().map(|e| (*e, 0)).collect(), 2);
				sc.err_chan = err_chan;
				sc.slow_errh = true;
				sc.horizon = 4;
				out.push((sc, ladder(0)));
			}
		}
	}
	out
}
