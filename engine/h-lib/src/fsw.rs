//! Filesystem-worker harness (C13, and the watcher-fault clauses of C15): the real
//! `fs::worker` inside a whole `Watchexec`, with a FakeWatcher behind the factory seam.

use std::{
	cell::RefCell,
	collections::{BTreeMap, BTreeSet},
	path::PathBuf,
	sync::Arc,
	time::Duration,
};

use dex::{
	explore::{choose, Bounds, Exec, Kind, Point, Policy},
	orch::{Obs, Tier},
	rt,
};
use fakewatcher::Call;
use serde::{Deserialize, Serialize};
use watchexec::{sources::fs::Watcher as WKind, Config, ErrorHook, WatchedPath, Watchexec};
use watchexec_events::{Event, Priority};

#[derive(Clone, Debug, PartialEq, Eq, Hash, Serialize, Deserialize)]
pub enum Chg {
	/// (path index into the universe, recursive)
	Paths(Vec<(u8, bool)>),
	Native,
	Poll,
	/// changes that must not disturb the registration
	Throttle,
	Keyboard,
	OnError,
	OnAction,
}

#[derive(Clone, Copy, Debug, PartialEq, Eq, Hash, Serialize, Deserialize)]
pub enum Via {
	/// `config.xxx()` from outside
	Direct,
	/// issued from inside the action handler
	Action,
}

#[derive(Clone, Debug, Serialize, Deserialize)]
pub struct FsSc {
	pub changes: Vec<(Chg, Via)>,
	/// paths (indices) whose watch() fails
	pub fail_watch: Vec<u8>,
	pub fail_unwatch: Vec<u8>,
	/// the watch failures are transient: each failing path fails once
	#[serde(default)]
	pub fail_once: bool,
	/// how many pending changes may land inside a watch / unwatch call
	pub in_call: usize,
	pub err_chan: usize,
	/// the error handler applies the next pending change when it is called
	pub errh_applies: bool,
}

const UNIVERSE: [&str; 3] = ["/w/a", "/w/b", "/w/c"];

fn path(i: u8) -> PathBuf {
	PathBuf::from(UNIVERSE[i as usize])
}

#[derive(Default)]
struct W {
	log: Vec<String>,
	/// changes not yet applied, in order
	pending: Vec<(Chg, Via)>,
	applied: Vec<Chg>,
	/// number of watcher calls made when each change was applied
	applied_at_call: Vec<usize>,
	in_call_left: usize,
	errors: Vec<String>,
	violations: Vec<(String, String)>,
	config: Option<Arc<Config>>,
	action_gen: usize,
	errh_applies: bool,
	quiescent_checks: u64,
}

thread_local! {
	static WORLD: RefCell<W> = RefCell::new(W::default());
}

fn w<R>(f: impl FnOnce(&mut W) -> R) -> R {
	WORLD.with(|x| f(&mut x.borrow_mut()))
}

fn note(s: String) {
	let t = rt::now();
	w(|x| x.log.push(format!("t{t} {s}")));
}

fn push(key: String, detail: String) {
	w(|x| {
		if !x.violations.iter().any(|(k, _)| *k == key) {
			x.violations.push((key, detail));
		}
	});
}

fn install_action(config: &Config, gen: usize) {
	let cfg = config.clone();
	config.on_action(move |a| {
		note(format!("action(gen{gen}) enter"));
		// apply the next pending change if it is to be issued from the action handler
		let next = w(|x| if matches!(x.pending.first(), Some((_, Via::Action))) { Some(x.pending.remove(0).0) } else { None });
		if let Some(c) = next {
			apply(&cfg, &c, "from-action");
		}
		note(format!("action(gen{gen}) exit"));
		a
	});
}

fn apply(config: &Config, c: &Chg, how: &str) {
	note(format!("apply {c:?} {how}"));
	let ncalls = fakewatcher::with(|f| f.calls.len());
	w(|x| {
		x.applied.push(c.clone());
		x.applied_at_call.push(ncalls);
	});
	match c {
		Chg::Paths(ps) => {
			config.pathset(ps.iter().map(|(i, r)| if *r { WatchedPath::recursive(path(*i)) } else { WatchedPath::non_recursive(path(*i)) }));
		}
		Chg::Native => {
			config.file_watcher(WKind::Native);
		}
		Chg::Poll => {
			config.file_watcher(WKind::Poll(Duration::from_millis(30)));
		}
		Chg::Throttle => {
			config.throttle(Duration::from_millis(20));
		}
		Chg::Keyboard => {
			config.keyboard_events(false);
		}
		Chg::OnError => {
			install_errh(config);
		}
		Chg::OnAction => {
			let g = w(|x| {
				x.action_gen += 1;
				x.action_gen
			});
			install_action(config, g);
		}
	}
}

fn install_errh(config: &Config) {
	let cfg = config.clone();
	config.on_error(move |e: ErrorHook| {
		let short = match &e.error {
			watchexec::error::RuntimeError::FsWatcher { err, .. } => match err {
				watchexec::error::FsWatcherError::PathAdd { path, .. } => format!("PathAdd {}", path.display()),
				watchexec::error::FsWatcherError::PathRemove { path, .. } => format!("PathRemove {}", path.display()),
				watchexec::error::FsWatcherError::Event(_) => "Event".to_string(),
				other => format!("Other {other}"),
			},
			other => format!("Other {other}"),
		};
		note(format!("errh {short}"));
		w(|x| x.errors.push(short));
		let next = w(|x| if x.errh_applies && matches!(x.pending.first(), Some((_, Via::Direct))) { Some(x.pending.remove(0).0) } else { None });
		if let Some(c) = next {
			apply(&cfg, &c, "from-error-handler");
		}
	});
}

pub fn run(sc: &FsSc, bounds: Bounds, prefix: &[Point], prop: &str) -> Result<Exec<Obs>, String> {
	WORLD.with(|x| *x.borrow_mut() = W::default());
	fakewatcher::install();
	fakewatcher::with(|f| {
		f.fail_watch = sc.fail_watch.iter().map(|i| path(*i)).collect();
		f.fail_unwatch = sc.fail_unwatch.iter().map(|i| path(*i)).collect();
		f.fail_watch_once = sc.fail_once;
	});
	let sc2 = sc.clone();
	let prop2 = prop.to_string();
	let res = rt::run_one(bounds, prefix, true, move || async move {
		rt::set_select_filter(Some(Box::new(|n| n != 6)));
		body(&sc2, &prop2).await
	});
	fakewatcher::uninstall();
	WORLD.with(|x| x.borrow_mut().config = None);
	match res {
		Err(rt::RunError::Panic(m)) => Err(format!("harness panic: {m}")),
		Ok(ex) => Ok(ex),
	}
}

async fn body(sc: &FsSc, prop: &str) -> Obs {
	let mut config = Config::default();
	config.error_channel_size = sc.err_chan;
	config.throttle(Duration::ZERO);
	install_action(&config, 0);
	install_errh(&config);
	let wx = Arc::new(Watchexec::with_config(config).expect("watchexec"));
	w(|x| {
		x.pending = sc.changes.clone();
		x.in_call_left = sc.in_call;
		x.config = Some(wx.config.clone());
		x.errh_applies = sc.errh_applies;
	});
	// a pending change may land in the middle of the worker's apply phase
	let cfg = wx.config.clone();
	fakewatcher::set_call_hook(Some(Box::new(move |what, p| {
		let can = w(|x| x.in_call_left > 0 && matches!(x.pending.first(), Some((_, Via::Direct))));
		if can && choose(Kind::Env, 2) == 1 {
			let c = w(|x| {
				x.in_call_left -= 1;
				x.pending.remove(0).0
			});
			apply(&cfg, &c, &format!("inside-{what}({})", p.display()));
		}
	})));
	let main = wx.main();
	let mut livelock = false;
	loop {
		let quiescent = match rt::settle(true, || {}).await {
			Ok(q) => q,
			Err(_) => {
				livelock = true;
				break;
			}
		};
		if quiescent {
			w(|x| x.quiescent_checks += 1);
			if prop == "C13" {
				converged(sc, main.is_finished(), false);
			}
		}
		let next = w(|x| x.pending.first().cloned());
		let Some((_, via)) = next else {
			if !quiescent {
				continue;
			}
			break;
		};
		// ENV: the only action is "issue the next change" — its timing relative to the
		// worker's progress is what PREEMPT and the in-call landings vary
		match via {
			Via::Direct => {
				let c = w(|x| x.pending.remove(0).0);
				apply(&wx.config, &c, "direct");
			}
			Via::Action => {
				note("send urgent event to trigger the action handler".into());
				if wx.send_event(Event::default(), Priority::Urgent).await.is_err() {
					note("send failed".into());
					w(|x| {
						x.pending.remove(0);
					});
				}
				// the handler pops the change when it runs
				if rt::settle(false, || {}).await.is_err() {
					livelock = true;
					break;
				}
				// if the handler did not run (main ended), drop the change
				w(|x| {
					if matches!(x.pending.first(), Some((_, Via::Action))) && x.applied.len() + x.pending.len() == sc.changes.len() {
						// still pending: the action never ran
						x.log.push("action handler did not run".into());
						x.pending.remove(0);
					}
				});
			}
		}
	}
	if !livelock {
		for _ in 0..3 {
			if rt::settle_quiet().await.is_err() {
				livelock = true;
				break;
			}
			rt::tick().await;
		}
	}
	for p in rt::take_panics() {
		if p.contains("/repo/") {
			push(format!("{prop}/subject-panicked"), p);
		}
	}
	if livelock {
		push(format!("{prop}/livelock"), "tasks kept waking each other for 20000 polls".into());
	} else if prop == "C13" {
		converged(sc, main.is_finished(), true);
		errors_accounted(prop);
	} else {
		errors_accounted(prop);
		if main.is_finished() {
			push("C15/main-ended-without-critical-error".into(), "main task ended although no error was elevated".into());
		}
	}
	fakewatcher::set_call_hook(None);
	main.abort();
	// break the Config <-> handler reference cycles (see evh.rs)
	wx.config.on_error(|_| {});
	wx.config.on_action(|a| a);
	w(|x| x.config = None);
	let calls: Vec<String> = fakewatcher::with(|f| f.calls.iter().map(fakewatcher::render).collect());
	let (log, violations, qc) = w(|x| (std::mem::take(&mut x.log), std::mem::take(&mut x.violations), x.quiescent_checks));
	let mut log = canonical_by(log, " errh PathRemove ");
	log.push("-- watcher calls --".into());
	log.extend(canonical(calls));
	let nontrivial = log.iter().any(|l| l.contains(" watch "));
	Obs { log, violations, nontrivial, counters: vec![("quiescent_instants_checked", qc)] }
}

/// The worker iterates a randomly seeded HashSet when it drops several paths at once:
/// sort runs of consecutive unwatch records so that logs are canonical.
fn canonical(calls: Vec<String>) -> Vec<String> {
	canonical_by(calls, " unwatch ")
}

fn canonical_by(calls: Vec<String>, needle: &str) -> Vec<String> {
	let mut out: Vec<String> = vec![];
	let mut run: Vec<String> = vec![];
	for c in calls {
		if c.contains(needle) {
			run.push(c);
		} else {
			run.sort();
			out.append(&mut run);
			out.push(c);
		}
	}
	run.sort();
	out.append(&mut run);
	out
}

/// Appendix D: what the watcher must look like at a quiescent instant.
fn converged(_sc: &FsSc, main_finished: bool, fin: bool) {
	if main_finished {
		push("C13/main-task-ended".into(), "the main task ended during reconfiguration".into());
		return;
	}
	let applied = w(|x| x.applied.clone());
	let mut cfg: BTreeMap<PathBuf, bool> = BTreeMap::new();
	let mut kind = "native".to_string();
	for c in &applied {
		match c {
			Chg::Paths(ps) => cfg = ps.iter().map(|(i, r)| (path(*i), *r)).collect(),
			Chg::Native => kind = "native".into(),
			Chg::Poll => kind = "poll(30ms)".into(),
			_ => {}
		}
	}
	let (live, calls): (Vec<(usize, String, BTreeMap<PathBuf, bool>)>, Vec<Call>) = fakewatcher::with(|f| {
		(
			f.watchers.iter().filter(|s| s.alive).map(|s| (s.idx, s.kind.clone(), s.reg.clone())).collect(),
			f.calls.iter().map(|(_, c)| c.clone()).collect(),
		)
	});
	let suffix = if fin { "/final" } else { "" };
	if cfg.is_empty() {
		if !live.is_empty() {
			push(format!("C13/watcher-not-released-on-empty-pathset{suffix}"), format!("configured path set is empty but watchers {:?} are live", live.iter().map(|l| l.0).collect::<Vec<_>>()));
		}
		return;
	}
	if live.len() != 1 {
		push(format!("C13/live-watchers-{}{suffix}", live.len()), format!("configured {cfg:?} kind {kind}, live watchers: {}", live.len()));
		return;
	}
	let (idx, lkind, reg) = &live[0];
	if *lkind != kind {
		push(format!("C13/wrong-watcher-kind{suffix}"), format!("configured kind {kind}, live watcher#{idx} is {lkind}"));
	}
	// most recent attempt per path on the live watcher
	let mut fw: BTreeSet<PathBuf> = BTreeSet::new();
	let mut fu: BTreeSet<PathBuf> = BTreeSet::new();
	for c in &calls {
		match c {
			Call::Watch { idx: i, path, ok, .. } if i == idx => {
				if *ok {
					fw.remove(path);
				} else {
					fw.insert(path.clone());
				}
			}
			Call::Unwatch { idx: i, path, ok } if i == idx => {
				if *ok {
					fu.remove(path);
				} else {
					fu.insert(path.clone());
				}
			}
			_ => {}
		}
	}
	// a registration that failed is attempted again whenever the configuration changes: if
	// the last attempt for a configured path failed, no change may have been applied since
	let applied_at = w(|x| x.applied_at_call.clone());
	for p in cfg.keys() {
		if !fw.contains(p) {
			continue;
		}
		let last_fail = calls.iter().rposition(|c| matches!(c, Call::Watch { idx: i, path, ok: false, .. } if i == idx && path == p));
		if let Some(ci) = last_fail {
			if applied_at.iter().any(|n| *n > ci) {
				push(
					format!("C13/failed-path-not-retried-after-a-change{suffix}"),
					format!("{}: the last watch attempt (call {ci}) failed; a configuration change was applied after it and the path was not tried again (applied {applied:?})", p.display()),
				);
			}
		}
	}
	for (p, m) in &cfg {
		if fw.contains(p) {
			continue;
		}
		match reg.get(p) {
			Some(r) if r == m => {}
			Some(r) => push(
				format!("C13/wrong-recursion-mode{suffix}"),
				format!("{} configured recursive={m} but registered recursive={r} (applied {applied:?})", p.display()),
			),
			None => push(
				format!("C13/configured-path-not-registered{suffix}"),
				format!("{} is configured but not registered with watcher#{idx} (registered {reg:?}; applied {applied:?})", p.display()),
			),
		}
	}
	for p in reg.keys() {
		if !cfg.contains_key(p) && !fu.contains(p) {
			push(
				format!("C13/stale-path-still-registered{suffix}"),
				format!("{} is registered with watcher#{idx} but not configured (applied {applied:?})", p.display()),
			);
		}
	}
}

/// One runtime error per failed call, naming the path; none otherwise.
fn errors_accounted(prop: &str) {
	let calls: Vec<Call> = fakewatcher::with(|f| f.calls.iter().map(|(_, c)| c.clone()).collect());
	let mut want: Vec<String> = vec![];
	for c in &calls {
		match c {
			Call::Watch { path, ok: false, .. } => want.push(format!("PathAdd {}", path.display())),
			Call::Unwatch { path, ok: false, .. } => want.push(format!("PathRemove {}", path.display())),
			_ => {}
		}
	}
	let mut got = w(|x| x.errors.clone());
	want.sort();
	got.sort();
	if want != got {
		let kind = if got.len() < want.len() {
			"missing"
		} else if got.len() > want.len() {
			"extra"
		} else {
			"different"
		};
		push(format!("{prop}/watcher-errors-{kind}"), format!("failed calls {want:?}, errors seen by the handler {got:?}"));
	}
}

// ---------------------------------------------------------------------------------

fn pathsets(max_paths: usize) -> Vec<Vec<(u8, bool)>> {
	// subsets of {a, b, c} with a recursion flag per path; the flag varies only on `a`
	let mut out = vec![vec![]];
	for mask in 1u8..8 {
		let idxs: Vec<u8> = (0..3).filter(|i| mask & (1 << i) != 0).collect();
		if idxs.len() > max_paths {
			continue;
		}
		out.push(idxs.iter().map(|i| (*i, true)).collect());
		if idxs.contains(&0) {
			out.push(idxs.iter().map(|i| (*i, *i != 0)).collect());
		}
	}
	// the configured list may name a path more than once (it is a list, the registered
	// set is a set): same length as {a, b} resp. {a, b, c}, fewer distinct paths
	out.push(vec![(0, true), (0, true)]);
	if max_paths >= 3 {
		out.push(vec![(0, true), (1, true), (0, true)]);
	}
	out
}

fn drops_at_most_one(seq: &[Chg]) -> bool {
	let mut cur: BTreeSet<(u8, bool)> = BTreeSet::new();
	for c in seq {
		if let Chg::Paths(ps) = c {
			let new: BTreeSet<(u8, bool)> = ps.iter().copied().collect();
			if !new.is_empty() && cur.difference(&new).count() > 1 {
				return false;
			}
			cur = new;
		}
	}
	true
}

fn both(k: usize) -> Vec<Bounds> {
	if k == 0 {
		vec![Bounds::k(0, Policy::Fifo)]
	} else {
		vec![Bounds::k(k, Policy::Fifo), Bounds::k(k, Policy::Lifo)]
	}
}

pub fn scenarios(prop: &str, tier: Tier) -> Vec<(FsSc, Vec<Bounds>)> {
	let mut out = vec![];
	let (len, kmax, sets) = match tier {
		Tier::Quick => (3usize, 1usize, pathsets(3)),
		Tier::Thorough => (5, 1, pathsets(3)),
	};
	let len = if prop == "C15" { len.min(2) } else { len };
	let mut alpha: Vec<Chg> = sets.iter().cloned().map(Chg::Paths).collect();
	alpha.extend([Chg::Native, Chg::Poll]);
	let others = [Chg::Throttle, Chg::Keyboard, Chg::OnError, Chg::OnAction];
	let mut seqs: Vec<Vec<Chg>> = vec![vec![]];
	let mut all: Vec<Vec<Chg>> = vec![];
	for _ in 0..len {
		seqs = seqs
			.into_iter()
			.flat_map(|s| {
				alpha.iter().map(move |c| {
					let mut s = s.clone();
					s.push(c.clone());
					s
				})
			})
			.filter(|s| s.windows(2).all(|w| w[0] != w[1]))
			.collect();
		all.extend(seqs.iter().cloned());
	}
	// sequences must contain at least one non-empty path set to be interesting
	all.retain(|s| s.iter().any(|c| matches!(c, Chg::Paths(p) if !p.is_empty())));
	if prop == "C15" {
		all.retain(|s| s.len() <= 2);
	}
	for s in &all {
		let l = s.len();
		let passes: Vec<Bounds> = match tier {
			Tier::Quick => (0..=kmax).flat_map(both).collect(),
			Tier::Thorough => {
				if l >= 5 {
					both(0)
				} else if l == 4 {
					(0..=1).flat_map(both).collect()
				} else if l == 3 {
					(0..=2).flat_map(both).collect()
				} else {
					(0..=3).flat_map(both).collect()
				}
			}
		};
		let direct: Vec<(Chg, Via)> = s.iter().cloned().map(|c| (c, Via::Direct)).collect();
		if prop == "C13" {
			out.push((FsSc { changes: direct.clone(), fail_watch: vec![], fail_unwatch: vec![], in_call: 0, err_chan: 64, errh_applies: false, fail_once: false }, passes.clone()));
			if l >= 2 && l <= if tier == Tier::Thorough { 4 } else { 3 } && drops_at_most_one(s) {
				// later changes land in the middle of the previous apply
				let max_in = if tier == Tier::Thorough { 2 } else { 1 };
				let p = if tier == Tier::Thorough && l <= 3 { (0..=1).flat_map(both).collect() } else { both(0) };
				out.push((FsSc { changes: direct.clone(), fail_watch: vec![], fail_unwatch: vec![], in_call: max_in, err_chan: 64, errh_applies: false, fail_once: false }, p));
			}
			if l == 2 {
				// issued from inside the action handler; mixed with no-op changes
				let via_action: Vec<(Chg, Via)> = s.iter().cloned().map(|c| (c, Via::Action)).collect();
				out.push((FsSc { changes: via_action, fail_watch: vec![], fail_unwatch: vec![], in_call: 0, err_chan: 64, errh_applies: false, fail_once: false }, passes.clone()));
				for o in &others {
					let mut ch = direct.clone();
					ch.insert(1, (o.clone(), Via::Direct));
					out.push((FsSc { changes: ch.clone(), fail_watch: vec![], fail_unwatch: vec![], in_call: 0, err_chan: 64, errh_applies: false, fail_once: false }, both(0)));
					let mut ch2 = direct.clone();
					ch2.insert(1, (o.clone(), Via::Action));
					out.push((FsSc { changes: ch2, fail_watch: vec![], fail_unwatch: vec![], in_call: 0, err_chan: 64, errh_applies: false, fail_once: false }, both(0)));
				}
			}
		}
		// a transient watch failure: after any later change (the same path set again, or an
		// unrelated setting) the path must have been tried again and be registered
		if prop == "C13" && l == 1 {
			if let Chg::Paths(ps) = &s[0] {
				if ps.iter().any(|(i, _)| *i == 0) {
					for second in [s[0].clone(), Chg::Throttle, Chg::OnAction] {
						let ch = vec![(s[0].clone(), Via::Direct), (second, Via::Direct)];
						out.push((FsSc { changes: ch, fail_watch: vec![0], fail_unwatch: vec![], in_call: 0, err_chan: 64, errh_applies: false, fail_once: true }, both(0)));
					}
				}
			}
		}
		// faults: watch(a) fails, unwatch(a) fails, both a and b fail with a tiny error queue
		if l <= 2 && drops_at_most_one(s) {
			let mentions = |i: u8| s.iter().any(|c| matches!(c, Chg::Paths(p) if p.iter().any(|(j, _)| *j == i)));
			if mentions(0) {
				for (fw, fu, ec) in [(vec![0u8], vec![], 64usize), (vec![], vec![0u8], 64), (vec![0, 1], vec![], 1)] {
					out.push((FsSc { changes: direct.clone(), fail_watch: fw.clone(), fail_unwatch: fu.clone(), in_call: 0, err_chan: ec, errh_applies: false, fail_once: false }, passes.clone()));
					if prop == "C13" && l == 2 {
						out.push((FsSc { changes: direct.clone(), fail_watch: fw, fail_unwatch: fu, in_call: 0, err_chan: ec, errh_applies: true, fail_once: false }, both(0)));
					}
				}
			}
		}
	}
	out
}
