//! DebounceModel (DESIGN.md appendix C): the documented debounce semantics for a fixed
//! throttle, driven by the ENV actions of a default-schedule execution (every arrival is
//! observed at a quiescent instant). Where the queue does not define an order (equal
//! priorities drained after a slow handler) the model is nondeterministic and returns
//! every acceptable outcome.

use watchexec_events::Priority;

use crate::evh::{Ev, EvSc, L};

type Outcome = Vec<(u64, Vec<usize>)>;

#[derive(Clone)]
enum Phase {
	Idle,
	Collecting { t0: u64, batch: Vec<usize> },
	Busy,
}

#[derive(Clone)]
struct St {
	phase: Phase,
	queue: Vec<(usize, Ev)>,
	out: Outcome,
}

pub fn accepted(ev: Ev) -> bool {
	ev.urgent() || ev.empty() || ev.verdict() == "pass"
}

impl St {
	fn deliver(&mut self, t: u64, gated: bool) {
		if !matches!(self.phase, Phase::Collecting { .. }) {
			return;
		}
		if let Phase::Collecting { batch, .. } = std::mem::replace(&mut self.phase, Phase::Idle) {
			let mut b = batch;
			b.sort_unstable();
			self.out.push((t, b));
			self.phase = if gated { Phase::Busy } else { Phase::Idle };
		}
	}

	/// an event reaches the worker at time t (the worker is not in the handler)
	fn arrive(&mut self, id: usize, ev: Ev, t: u64, thr: u64, gated: bool) {
		if !accepted(ev) {
			return;
		}
		match &mut self.phase {
			Phase::Idle => self.phase = Phase::Collecting { t0: t, batch: vec![id] },
			Phase::Collecting { batch, .. } => batch.push(id),
			Phase::Busy => unreachable!(),
		}
		let t0 = if let Phase::Collecting { t0, .. } = &self.phase { *t0 } else { t };
		if ev.urgent() || t - t0 >= thr {
			self.deliver(t, gated);
		}
	}
}

fn prio_rank(p: Priority) -> u8 {
	match p {
		Priority::Low => 0,
		Priority::Normal => 1,
		Priority::High => 2,
		Priority::Urgent => 3,
	}
}

/// Drain the queue after the handler returned: highest priority first, any order among
/// equals; stops when a delivery makes the worker busy again.
fn drain(st: St, t: u64, thr: u64, gated: bool, acc: &mut Vec<St>) {
	if st.queue.is_empty() || matches!(st.phase, Phase::Busy) {
		acc.push(st);
		return;
	}
	let top = st.queue.iter().map(|(_, e)| prio_rank(e.prio())).max().unwrap();
	let cands: Vec<usize> = st.queue.iter().enumerate().filter(|(_, (_, e))| prio_rank(e.prio()) == top).map(|(i, _)| i).collect();
	for c in cands {
		let mut s = st.clone();
		let (id, ev) = s.queue.remove(c);
		if thr == 0 && accepted(ev) && !ev.urgent() {
			// zero window: the property fixes no grouping for events that are already
			// waiting when the window (of length zero) closes — they may each be a batch
			// of their own (today's code) or ride along with the batch being closed; the
			// batch is closed at this instant either way (see the end of the drain below)
			let mut s2 = s.clone();
			match &mut s2.phase {
				Phase::Idle => s2.phase = Phase::Collecting { t0: t, batch: vec![id] },
				Phase::Collecting { batch, .. } => batch.push(id),
				Phase::Busy => unreachable!(),
			}
			if s2.queue.is_empty() {
				s2.deliver(t, gated);
			}
			drain(s2, t, thr, gated, acc);
		}
		s.arrive(id, ev, t, thr, gated);
		if thr == 0 && s.queue.is_empty() && matches!(s.phase, Phase::Collecting { .. }) {
			// nothing left to ride along: an open zero-length window closes now
			s.deliver(t, gated);
		}
		drain(s, t, thr, gated, acc);
	}
}

pub fn debounce(sc: &EvSc, log: &[L]) -> Vec<Outcome> {
	let thr = sc.throttle;
	let gated = sc.gated;
	let mut states = vec![St { phase: Phase::Idle, queue: vec![], out: vec![] }];
	let mut now = 0u64;
	for l in log {
		let mut next = vec![];
		match l {
			L::Send { id, ev, t } => {
				for mut s in states {
					if matches!(s.phase, Phase::Busy) {
						s.queue.push((*id, *ev));
					} else {
						s.arrive(*id, *ev, *t, thr, gated);
					}
					next.push(s);
				}
			}
			L::Tick { t } => {
				now = *t;
				for mut s in states {
					if let Phase::Collecting { t0, .. } = &s.phase {
						if now - *t0 >= thr {
							s.deliver(now, gated);
						}
					}
					next.push(s);
				}
			}
			L::HandlerDone => {
				for mut s in states {
					if matches!(s.phase, Phase::Busy) {
						s.phase = Phase::Idle;
						drain(s, now, thr, gated, &mut next);
					} else {
						next.push(s);
					}
				}
			}
			_ => {
				next = states;
			}
		}
		states = next;
		if let L::Send { t, .. } = l {
			now = now.max(*t);
		}
	}
	let mut outs: Vec<Outcome> = states.into_iter().map(|s| s.out).collect();
	outs.sort();
	outs.dedup();
	outs
}


/// The clauses of the property themselves, evaluated on an observed default-schedule log
/// (fixed throttle). Used when the observed batches are not among the outcomes of the
/// exact model above: an implementation may legitimately close a window up to one tick
/// late ("within a bounded delay") and may or may not take events that arrive after the
/// window end into the batch being closed. Returns the first clause that fails.
pub fn clauses(sc: &EvSc, log: &[L]) -> Result<(), String> {
	const SLACK: u64 = 1;
	let thr = sc.throttle;
	// batches: (log position of the entry, time, ids); busy intervals: entry .. exit
	let mut batches: Vec<(usize, u64, Vec<usize>)> = vec![];
	let mut busy: Vec<(usize, usize, u64)> = vec![]; // (enter pos, exit pos, exit time)
	let mut open: Option<usize> = None;
	for (i, l) in log.iter().enumerate() {
		match l {
			L::BatchEnter { ids, t, .. } => {
				batches.push((i, *t, ids.clone()));
				open = Some(i);
			}
			L::BatchExit { t, .. } => {
				if let Some(p) = open.take() {
					busy.push((p, i, *t));
				}
			}
			_ => {}
		}
	}
	if let Some(p) = open {
		busy.push((p, usize::MAX, u64::MAX));
	}
	// arrivals of accepted events: (id, ev, position, time)
	let mut arr: Vec<(usize, Ev, usize, u64)> = vec![];
	for (i, l) in log.iter().enumerate() {
		if let L::Send { id, ev, t } = l {
			if log.iter().any(|x| matches!(x, L::SendFailed { id: j } if j == id)) || !accepted(*ev) {
				continue;
			}
			match busy.iter().find(|(a, b, _)| *a < i && i < *b) {
				Some((_, b, bt)) => {
					if *b != usize::MAX {
						arr.push((*id, *ev, *b, *bt));
					}
				}
				None => arr.push((*id, *ev, i, *t)),
			}
		}
	}
	let in_batch = |id: usize| batches.iter().position(|(_, _, ids)| ids.contains(&id));
	for (bi, (pe, te, ids)) in batches.iter().enumerate() {
		let members: Vec<&(usize, Ev, usize, u64)> = arr.iter().filter(|a| ids.contains(&a.0)).collect();
		let Some(first) = members.iter().min_by_key(|a| (a.2, a.0)) else { continue };
		// the worker starts collecting for this batch only once the previous handler returned
		let prev_exit = busy.iter().filter(|b| b.1 < *pe).map(|b| b.2).max().unwrap_or(0);
		let a0 = first.3.max(prev_exit);
		let has_urgent = members.iter().any(|a| a.1.urgent());
		if !has_urgent {
			if *te < a0 + thr {
				return Err(format!("batch {ids:?} entered at t{te}, before its window (first event received at t{a0}, throttle {thr}) had elapsed"));
			}
			if *te > a0 + thr + SLACK {
				return Err(format!("batch {ids:?} entered at t{te}: more than {SLACK} tick after its window ended at t{}", a0 + thr));
			}
		}
		// everything received before the batch was handed over (before the urgent event that
		// flushed it, if one did), inside the window, is in it
		let cutoff = members.iter().filter(|a| a.1.urgent()).map(|a| a.2).min().unwrap_or(*pe);
		for a in &arr {
			if a.2 < cutoff && a.2 >= first.2 && a.3.max(prev_exit) < a0 + thr && in_batch(a.0).map_or(true, |b| b > bi) {
				return Err(format!("event #{} was received at t{} inside the window of batch {ids:?} (t{a0} + {thr}) but is not in it", a.0, a.3));
			}
		}
	}
	// an urgent event flushes at once: it is handed over the moment the worker is free, and
	// only batches flushed by other urgent events may go before it
	for a in arr.iter().filter(|a| a.1.urgent()) {
		let Some(bi) = in_batch(a.0) else {
			let last_exit = busy.iter().map(|b| b.2).max().unwrap_or(0);
			let end_t = log.iter().rev().find_map(|l| if let L::Tick { t } = l { Some(*t) } else { None }).unwrap_or(0);
			if busy.last().map_or(true, |b| b.1 != usize::MAX) && end_t > a.3.max(last_exit) {
				return Err(format!("urgent event #{} received at t{} was never handed over", a.0, a.3));
			}
			continue;
		};
		let (pe, te, ids) = &batches[bi];
		let prev_exit = busy.iter().filter(|b| b.1 < *pe).map(|b| b.2).max().unwrap_or(0);
		if *te != a.3.max(prev_exit) {
			return Err(format!("urgent event #{} received at t{}: its batch {ids:?} was entered at t{te}, the worker was free from t{prev_exit}", a.0, a.3));
		}
		for (pe2, _, ids2) in &batches[..bi] {
			if *pe2 > a.2 && !arr.iter().any(|x| ids2.contains(&x.0) && x.1.urgent()) {
				return Err(format!("urgent event #{} received at t{}: the batch {ids2:?} without an urgent event went before it", a.0, a.3));
			}
		}
	}
	// nothing accepted and received a full window (plus tolerance) ago may still be undelivered
	let end_t = log.iter().rev().find_map(|l| if let L::Tick { t } = l { Some(*t) } else { None }).unwrap_or(0);
	let still_busy = busy.last().map_or(false, |b| b.1 == usize::MAX);
	if !still_busy {
		let last_exit = busy.iter().map(|b| b.2).max().unwrap_or(0);
		for a in &arr {
			if in_batch(a.0).is_none() && end_t > (a.3.max(last_exit)).saturating_add(thr).saturating_add(SLACK) {
				return Err(format!("event #{} received at t{} is still undelivered at t{end_t}", a.0, a.3));
			}
		}
	}
	Ok(())
}
