//! DebounceModel (DESIGN.md appendix C): the documented debounce semantics for a fixed
//! throttle, driven by the ENV actions of a default-schedule execution (every arrival is
//! observed at a quiescent instant). Where the queue does not define an order (equal
//! priorities drained after a slow handler) the model is nondeterministic and returns
//! every acceptable outcome.

use watchexec_events::Priority;

use crate::evh::{Ev, EvSc, L};

type Outcome = Vec<(u64, Vec<usize>)>;

#[derive(Clone)]
enum Phase {
	Idle,
	Collecting { t0: u64, batch: Vec<usize> },
	Busy,
}

#[derive(Clone)]
struct St {
	phase: Phase,
	queue: Vec<(usize, Ev)>,
	out: Outcome,
}

fn accepted(ev: Ev) -> bool {
	ev.urgent() || ev.empty() || ev.verdict() == "pass"
}

impl St {
	fn deliver(&mut self, t: u64, gated: bool) {
		if !matches!(self.phase, Phase::Collecting { .. }) {
			return;
		}
		if let Phase::Collecting { batch, .. } = std::mem::replace(&mut self.phase, Phase::Idle) {
			let mut b = batch;
			b.sort_unstable();
			self.out.push((t, b));
			self.phase = if gated { Phase::Busy } else { Phase::Idle };
		}
	}

	/// an event reaches the worker at time t (the worker is not in the handler)
	fn arrive(&mut self, id: usize, ev: Ev, t: u64, thr: u64, gated: bool) {
		if !accepted(ev) {
			return;
		}
		match &mut self.phase {
			Phase::Idle => self.phase = Phase::Collecting { t0: t, batch: vec![id] },
			Phase::Collecting { batch, .. } => batch.push(id),
			Phase::Busy => unreachable!(),
		}
		let t0 = if let Phase::Collecting { t0, .. } = &self.phase { *t0 } else { t };
		if ev.urgent() || t - t0 >= thr {
			self.deliver(t, gated);
		}
	}
}

fn prio_rank(p: Priority) -> u8 {
	match p {
		Priority::Low => 0,
		Priority::Normal => 1,
		Priority::High => 2,
		Priority::Urgent => 3,
	}
}

/// Drain the queue after the handler returned: highest priority first, any order among
/// equals; stops when a delivery makes the worker busy again.
fn drain(st: St, t: u64, thr: u64, gated: bool, acc: &mut Vec<St>) {
	if st.queue.is_empty() || matches!(st.phase, Phase::Busy) {
		acc.push(st);
		return;
	}
	let top = st.queue.iter().map(|(_, e)| prio_rank(e.prio())).max().unwrap();
	let cands: Vec<usize> = st.queue.iter().enumerate().filter(|(_, (_, e))| prio_rank(e.prio()) == top).map(|(i, _)| i).collect();
	for c in cands {
		let mut s = st.clone();
		let (id, ev) = s.queue.remove(c);
		if thr == 0 && accepted(ev) && !ev.urgent() {
			// zero window: the property fixes no grouping for events that are already
			// waiting when the window (of length zero) closes — they may each be a batch
			// of their own (today's code) or ride along with the batch being closed; the
			// batch is closed at this instant either way (see the end of the drain below)
			let mut s2 = s.clone();
			match &mut s2.phase {
				Phase::Idle => s2.phase = Phase::Collecting { t0: t, batch: vec![id] },
				Phase::Collecting { batch, .. } => batch.push(id),
				Phase::Busy => unreachable!(),
			}
			if s2.queue.is_empty() {
				s2.deliver(t, gated);
			}
			drain(s2, t, thr, gated, acc);
		}
		s.arrive(id, ev, t, thr, gated);
		if thr == 0 && s.queue.is_empty() && matches!(s.phase, Phase::Collecting { .. }) {
			// nothing left to ride along: an open zero-length window closes now
			s.deliver(t, gated);
		}
		drain(s, t, thr, gated, acc);
	}
}

pub fn debounce(sc: &EvSc, log: &[L]) -> Vec<Outcome> {
	let thr = sc.throttle;
	let gated = sc.gated;
	let mut states = vec![St { phase: Phase::Idle, queue: vec![], out: vec![] }];
	let mut now = 0u64;
	for l in log {
		let mut next = vec![];
		match l {
			L::Send { id, ev, t } => {
				for mut s in states {
					if matches!(s.phase, Phase::Busy) {
						s.queue.push((*id, *ev));
					} else {
						s.arrive(*id, *ev, *t, thr, gated);
					}
					next.push(s);
				}
			}
			L::Tick { t } => {
				now = *t;
				for mut s in states {
					if let Phase::Collecting { t0, .. } = &s.phase {
						if now - *t0 >= thr {
							s.deliver(now, gated);
						}
					}
					next.push(s);
				}
			}
			L::HandlerDone => {
				for mut s in states {
					if matches!(s.phase, Phase::Busy) {
						s.phase = Phase::Idle;
						drain(s, now, thr, gated, &mut next);
					} else {
						next.push(s);
					}
				}
			}
			_ => {
				next = states;
			}
		}
		states = next;
		if let L::Send { t, .. } = l {
			now = now.max(*t);
		}
	}
	let mut outs: Vec<Outcome> = states.into_iter().map(|s| s.out).collect();
	outs.sort();
	outs.dedup();
	outs
}
