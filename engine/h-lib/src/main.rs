//! Library harness: C01, C02, C15 (event path) and C13 (fs worker) on a whole `Watchexec`.

mod c01_real;
mod c15_real;
mod evh;
mod fsw;
mod model;

use dex::{
	explore::{Bounds, Exec, Point},
	orch::{self, Harness, Obs, Tier},
};

struct EvH {
	prop: String,
}

#[derive(Clone, serde::Serialize, serde::Deserialize)]
enum LibSc {
	Ev(evh::EvSc),
	Fs(fsw::FsSc),
}

impl Harness for EvH {
	type Sc = LibSc;
	fn name(&self) -> &'static str {
		"h-lib"
	}
	fn property(&self) -> &str {
		&self.prop
	}
	fn scenarios(&self, tier: Tier) -> Vec<(LibSc, Vec<Bounds>)> {
		let mut v: Vec<(LibSc, Vec<Bounds>)> = vec![];
		if self.prop != "C13" {
			let mut e = evh::scenarios(&self.prop, tier);
			if let Ok(f) = std::env::var("VERIF_SCRIPT") {
				e.retain(|(s, _)| format!("{:?}", s.script.iter().map(|(o, _)| *o).collect::<Vec<_>>()) == f);
			}
			v.extend(e.into_iter().map(|(s, b)| (LibSc::Ev(s), b)));
		}
		if self.prop == "C13" || self.prop == "C15" {
			v.extend(fsw::scenarios(&self.prop, tier).into_iter().map(|(s, b)| (LibSc::Fs(s), b)));
		}
		v
	}
	fn run(&self, sc: &LibSc, bounds: Bounds, prefix: &[Point]) -> Result<Exec<Obs>, String> {
		match sc {
			LibSc::Ev(s) => evh::run(s, bounds, prefix, &self.prop),
			LibSc::Fs(s) => fsw::run(s, bounds, prefix, &self.prop),
		}
	}
}

fn main() {
	let argv: Vec<String> = std::env::args().skip(1).collect();
	let args = orch::parse_args(&argv);
	let prop = args.rest.first().cloned().unwrap_or_else(|| {
		eprintln!("usage: h-lib <C01|C02|C13|C15> [--tier quick|thorough] [--replay file]");
		std::process::exit(2);
	});
	let assumptions = vec![
		"atomic step = one task poll on a current-thread tokio runtime (tokio 1.43.0 with three explorer seams)".to_string(),
		"virtual time, 1 tick = 10 ms; the action worker measures its window on tokio's clock (cfg(watchexec_verif) seam)".to_string(),
		"filesystem watcher replaced by FakeWatcher through the cfg(watchexec_verif) factory seam; real inotify delivery is out of reach".to_string(),
	];
	if prop == "C01" && args.rest.get(1).map(String::as_str) == Some("--real-leg") {
		std::process::exit(c01_real::main_leg());
	}
	if prop == "C15" && args.rest.get(1).map(String::as_str) == Some("--real-leg") {
		std::process::exit(c15_real::main_leg());
	}
	// a recorded violation of a real leg is replayed by running that leg again
	if let Some(f) = &args.replay {
		let real = std::fs::read_to_string(f).ok().and_then(|t| serde_json::from_str::<serde_json::Value>(&t).ok()).map_or(false, |v| v["scenario"].get("real_case").is_some());
		if real {
			let code = if prop == "C15" { c15_real::main_leg() } else { c01_real::main_leg() };
			if code == 1 {
				println!("VIOLATION property={prop} replay={}", f.display());
			}
			std::process::exit(code);
		}
	}
	let code = match prop.as_str() {
		"C01" | "C02" | "C13" | "C15" => {
			let h = EvH { prop: prop.clone() };
			if prop == "C15" && (args.worker.is_some() || args.replay.is_some()) {
				evh::calibrate();
			}
			if args.rest.get(1).map(String::as_str) == Some("--count") {
				println!("{} scenarios", h.scenarios(args.tier).len());
				return;
			}
			let rule = "every ENV order (sends per producer, ticks, handler completion, throttle change) of every scenario, and every order of configuration changes incl. landings inside watch/unwatch calls, times every SCHED/PREEMPT deviation set within the pass bound; non-trivial = the action handler ran / a path was registered; distinct = distinct observation logs";
			let post: Option<orch::Post<'_>> = if prop == "C01" && args.worker.is_none() && args.replay.is_none() {
				Some(Box::new(|cov, viols| {
					let exe = std::env::current_exe().expect("exe");
					let mut cmd = std::process::Command::new(exe);
					cmd.args(["C01", "--real-leg"]);
					let Some(o) = orch::output_with_timeout(cmd, 120) else {
						cov.insert("keyboard_real_leg".into(), serde_json::json!("not completed within its wall limit"));
						return;
					};
					let text = String::from_utf8_lossy(&o.stdout).to_string();
					let line = text.lines().find(|l| l.starts_with("REAL case=")).unwrap_or("").to_string();
					cov.insert("keyboard_real_leg".into(), serde_json::json!(line));
					if line.contains(" ok=false ") && !line.contains("machinery:") {
						viols.push(orch::ViolationRec {
							property: "C01".into(),
							key: "C01/real/keyboard-eof-event".into(),
							detail: line,
							harness: "h-lib/c01-real".into(),
							scenario: serde_json::json!({"real_case": "keyboard-eof"}),
							bounds: None,
							choices: vec![],
							log: vec![],
							count: 1,
						});
					}
				}))
			} else if prop == "C15" && args.worker.is_none() && args.replay.is_none() {
				Some(Box::new(|cov, viols| {
					let exe = std::env::current_exe().expect("exe");
					let mut cmd = std::process::Command::new(exe);
					cmd.args(["C15", "--real-leg"]);
					let Some(o) = orch::output_with_timeout(cmd, 180) else {
						cov.insert("real_watcher_leg".into(), serde_json::json!("not completed within its wall limit"));
						return;
					};
					let text = String::from_utf8_lossy(&o.stdout).to_string();
					let lines: Vec<String> = text.lines().filter(|l| l.starts_with("REAL case=")).map(str::to_string).collect();
					cov.insert("real_watcher_leg".into(), serde_json::json!(lines));
					for line in lines {
						if line.contains(" ok=false ") && !line.contains("machinery:") {
							let name = line.split_whitespace().nth(1).unwrap_or("case=?").trim_start_matches("case=").to_string();
							viols.push(orch::ViolationRec {
								property: "C15".into(),
								key: format!("C15/real/{name}"),
								detail: line,
								harness: "h-lib/c15-real".into(),
								scenario: serde_json::json!({"real_case": name}),
								bounds: None,
								choices: vec![],
								log: vec![],
								count: 1,
							});
						}
					}
				}))
			} else {
				None
			};
			orch::dex_main_with(&h, &args, &[prop], assumptions, rule, post)
		}
		_ => {
			eprintln!("unknown property {prop}");
			2
		}
	};
	std::process::exit(code);
}
