//! C15, real leg for the filesystem source: a real `Watchexec` on a real runtime with the
//! real notify watchers (native and poll), one path that cannot be registered next to one
//! that can. The failure must reach the error handler, the main task must stay alive and a
//! later change under the healthy path must still reach the action handler. A fixed
//! scenario per watcher kind, not an exploration: it binds what FakeWatcher models (a
//! `watch()` that fails) to what the real watchers do on that path — the poll watcher, for
//! one, reports through its event callback from inside `watch()`, on the caller's thread.

use std::{
	path::PathBuf,
	sync::{Arc, Mutex},
	time::{Duration, Instant},
};

use watchexec::{Config, Watchexec};
use watchexec::sources::fs::Watcher;

fn one(kind: &'static str) -> Result<(bool, String), String> {
	let rt = tokio::runtime::Builder::new_multi_thread().worker_threads(2).enable_all().build().map_err(|e| e.to_string())?;
	let dir = PathBuf::from(format!("/dev/shm/verif-c15real-{}-{kind}", std::process::id()));
	let _ = std::fs::remove_dir_all(&dir);
	let good = dir.join("good");
	std::fs::create_dir_all(&good).map_err(|e| e.to_string())?;
	let missing = dir.join("missing/sub");
	let errors: Arc<Mutex<Vec<String>>> = Arc::default();
	let events: Arc<Mutex<Vec<String>>> = Arc::default();
	let (e2, a2) = (errors.clone(), events.clone());
	let good2 = good.clone();
	let out = rt.block_on(async move {
		let config = Config::default();
		config.throttle(Duration::ZERO);
		config.file_watcher(if kind == "poll" { Watcher::Poll(Duration::from_millis(50)) } else { Watcher::Native });
		config.on_error(move |e| {
			e2.lock().unwrap().push(e.error.to_string());
		});
		config.on_action(move |a| {
			for (p, _) in a.paths() {
				a2.lock().unwrap().push(p.display().to_string());
			}
			a
		});
		let wx = Watchexec::with_config(config).map_err(|e| e.to_string())?;
		let mut main = wx.main();
		tokio::time::sleep(Duration::from_millis(100)).await;
		wx.config.pathset([missing.clone(), good2.clone()]);
		// the failure is reported (generous wait: the machine may be busy)
		let t0 = Instant::now();
		while errors.lock().unwrap().is_empty() && t0.elapsed() < Duration::from_secs(15) && !main.is_finished() {
			tokio::time::sleep(Duration::from_millis(50)).await;
		}
		tokio::time::sleep(Duration::from_millis(300)).await;
		let reported = errors.lock().unwrap().clone();
		let alive_after_error = !main.is_finished();
		// a later change under the healthy path still arrives
		let mut seen = false;
		if alive_after_error {
			let t1 = Instant::now();
			let mut n = 0;
			while t1.elapsed() < Duration::from_secs(15) && !main.is_finished() {
				n += 1;
				let _ = std::fs::write(good2.join(format!("f{n}.txt")), format!("{n}"));
				tokio::time::sleep(Duration::from_millis(200)).await;
				if events.lock().unwrap().iter().any(|p| p.contains("/good/")) {
					seen = true;
					break;
				}
			}
		}
		let finished = main.is_finished();
		let result = if finished { format!("{:?}", (&mut main).await.map(|r| r.map_err(|e| e.to_string()))) } else { "running".to_string() };
		main.abort();
		Ok::<_, String>((reported, alive_after_error, seen, finished, result))
	});
	rt.shutdown_timeout(Duration::from_secs(2));
	let _ = std::fs::remove_dir_all(&dir);
	let (reported, alive, seen, finished, result) = out?;
	let ok = !reported.is_empty() && alive && seen && !finished;
	Ok((
		ok,
		format!("errors reported to the handler: {reported:?}; main alive after the failure: {alive}; later change under the healthy path reached the action handler: {seen}; main task at the end: {result}"),
	))
}

pub fn main_leg() -> i32 {
	let mut rc = 0;
	for kind in ["native", "poll"] {
		match one(kind) {
			Ok((ok, detail)) => {
				println!("REAL case=unregistrable-path-{kind} ok={ok} detail={detail}");
				if !ok {
					rc = 1;
				}
			}
			Err(e) => {
				println!("REAL case=unregistrable-path-{kind} ok=false detail=machinery: {e}");
				rc = rc.max(2);
			}
		}
	}
	rc
}
