//! FakeWatcher: a recording, fault-injecting `notify::Watcher`, installed through the fs
//! source's `cfg(watchexec_verif)` factory seam. It behaves like notify's backends where
//! that is observable (re-watching a path replaces its mode, unwatching an unknown path
//! is `WatchNotFound`), lets the harness act *inside* a watch/unwatch call, and keeps
//! the real event callback so notify events / errors can be delivered through the real
//! `process_event`.

use std::{
	cell::RefCell,
	collections::{BTreeMap, BTreeSet},
	path::{Path, PathBuf},
	sync::{Arc, Mutex},
};

use notify::{Config, EventHandler, RecursiveMode, WatcherKind};
use watchexec::sources::fs::Watcher as Kind;

pub struct WatcherSt {
	pub idx: usize,
	pub kind: String,
	pub alive: bool,
	/// path -> recursive?
	pub reg: BTreeMap<PathBuf, bool>,
}

#[derive(Clone, Debug, PartialEq, Eq)]
pub enum Call {
	Create { idx: usize, kind: String },
	Watch { idx: usize, path: PathBuf, recursive: bool, ok: bool },
	Unwatch { idx: usize, path: PathBuf, ok: bool },
	Drop { idx: usize },
}

#[derive(Default)]
pub struct World {
	pub calls: Vec<(u64, Call)>,
	pub watchers: Vec<WatcherSt>,
	pub handlers: Vec<Arc<Mutex<Box<dyn EventHandler>>>>,
	/// watch(p) fails while p is in this set
	pub fail_watch: BTreeSet<PathBuf>,
	/// a path in `fail_watch` fails only the first time it is watched (a transient failure)
	pub fail_watch_once: bool,
	pub fail_unwatch: BTreeSet<PathBuf>,
}

thread_local! {
	static WORLD: RefCell<World> = RefCell::new(World::default());
	/// called at the start of every watch / unwatch (before the call takes effect)
	static CALL_HOOK: RefCell<Option<Box<dyn FnMut(&str, &Path)>>> = const { RefCell::new(None) };
}

pub fn with<R>(f: impl FnOnce(&mut World) -> R) -> R {
	WORLD.with(|w| f(&mut w.borrow_mut()))
}

pub fn set_call_hook(h: Option<Box<dyn FnMut(&str, &Path)>>) {
	CALL_HOOK.with(|c| *c.borrow_mut() = h);
}

fn call_hook(what: &str, p: &Path) {
	// take the hook out while it runs: it may re-enter the fs configuration
	let h = CALL_HOOK.with(|c| c.borrow_mut().take());
	if let Some(mut h) = h {
		h(what, p);
		CALL_HOOK.with(|c| {
			let mut c = c.borrow_mut();
			if c.is_none() {
				*c = Some(h);
			}
		});
	}
}

fn kind_str(k: Kind) -> String {
	match k {
		Kind::Native => "native".into(),
		Kind::Poll(d) => format!("poll({}ms)", d.as_millis()),
		_ => "other".into(),
	}
}

pub fn install() {
	with(|w| *w = World::default());
	watchexec::verif::set_watcher_factory(Some(Box::new(|kind, handler| {
		let idx = with(|w| {
			let idx = w.watchers.len();
			w.watchers.push(WatcherSt { idx, kind: kind_str(kind), alive: true, reg: BTreeMap::new() });
			w.handlers.push(Arc::new(Mutex::new(handler)));
			w.calls.push((dex::rt::now(), Call::Create { idx, kind: kind_str(kind) }));
			idx
		});
		Box::new(Fake { idx })
	})));
}

pub fn uninstall() {
	watchexec::verif::set_watcher_factory(None);
	set_call_hook(None);
	with(|w| *w = World::default());
}

/// Deliver a notify event or error through the callback the fs worker registered with
/// watcher `idx` (i.e. through the real `process_event`).
pub fn emit(idx: usize, ev: notify::Result<notify::Event>) {
	let h = with(|w| w.handlers.get(idx).cloned());
	if let Some(h) = h {
		h.lock().unwrap().handle_event(ev);
	}
}

/// The live watcher, if exactly one is live.
pub fn live() -> Vec<usize> {
	with(|w| w.watchers.iter().filter(|s| s.alive).map(|s| s.idx).collect())
}

#[derive(Debug)]
pub struct Fake {
	idx: usize,
}

impl notify::Watcher for Fake {
	fn new<F: EventHandler>(_: F, _: Config) -> notify::Result<Self> {
		Err(notify::Error::generic("FakeWatcher is created through the verif factory"))
	}

	fn watch(&mut self, path: &Path, mode: RecursiveMode) -> notify::Result<()> {
		call_hook("watch", path);
		let recursive = matches!(mode, RecursiveMode::Recursive);
		let idx = self.idx;
		let fail = with(|w| {
			let f = w.fail_watch.contains(path);
			if f && w.fail_watch_once {
				w.fail_watch.remove(path);
			}
			f
		});
		with(|w| {
			w.calls.push((dex::rt::now(), Call::Watch { idx, path: path.to_path_buf(), recursive, ok: !fail }));
			if !fail {
				w.watchers[idx].reg.insert(path.to_path_buf(), recursive);
			}
		});
		if fail {
			Err(notify::Error::path_not_found())
		} else {
			Ok(())
		}
	}

	fn unwatch(&mut self, path: &Path) -> notify::Result<()> {
		call_hook("unwatch", path);
		let idx = self.idx;
		let (fail, held) = with(|w| (w.fail_unwatch.contains(path), w.watchers[idx].reg.contains_key(path)));
		let ok = !fail && held;
		with(|w| {
			w.calls.push((dex::rt::now(), Call::Unwatch { idx, path: path.to_path_buf(), ok }));
			if ok {
				w.watchers[idx].reg.remove(path);
			}
		});
		if fail {
			Err(notify::Error::generic("sim: unwatch failed"))
		} else if !held {
			Err(notify::Error::watch_not_found())
		} else {
			Ok(())
		}
	}

	fn kind() -> WatcherKind {
		WatcherKind::NullWatcher
	}
}

impl Drop for Fake {
	fn drop(&mut self) {
		let idx = self.idx;
		// the world may already be gone when the runtime is torn down
		let _ = WORLD.try_with(|w| {
			if let Ok(mut w) = w.try_borrow_mut() {
				if let Some(s) = w.watchers.get_mut(idx) {
					s.alive = false;
					s.reg.clear();
				}
				let t = dex::rt::now();
				w.calls.push((t, Call::Drop { idx }));
			}
		});
	}
}

pub fn render(c: &(u64, Call)) -> String {
	let (t, c) = c;
	match c {
		Call::Create { idx, kind } => format!("t{t} watcher#{idx} create {kind}"),
		Call::Watch { idx, path, recursive, ok } => {
			format!("t{t} watcher#{idx} watch {} {}{}", path.display(), if *recursive { "rec" } else { "nonrec" }, if *ok { "" } else { " !err" })
		}
		Call::Unwatch { idx, path, ok } => format!("t{t} watcher#{idx} unwatch {}{}", path.display(), if *ok { "" } else { " !err" }),
		Call::Drop { idx } => format!("t{t} watcher#{idx} drop"),
	}
}
