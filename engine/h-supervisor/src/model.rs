//! JobModel (DESIGN.md appendix A): the documented semantics of a supervised job as a
//! nondeterministic transition system, written from the public docs of `Job`, not from
//! the implementation's `select!` layout.
//!
//! Two uses:
//!  * conformance (C09): the implementation's observation log must be a trace of the
//!    model — checked by state-set tracking over the log (`Tracker`);
//!  * the model itself is a `stateright::Model` whose reachable states are enumerated
//!    and checked against the model-level invariants (`check_model`).

use std::collections::{BTreeSet, VecDeque};

use crate::scen::{Fault, Op, Prio, Sc, SIG_GRESTART, SIG_GSTOP, SIG_PLAIN, SIG_TRYGRESTART};

#[derive(Clone, Copy, Debug, PartialEq, Eq, Hash, PartialOrd, Ord)]
pub enum Cls {
	Pending,
	Running,
	Finished,
}

#[derive(Clone, Copy, Debug, PartialEq, Eq, Hash, PartialOrd, Ord)]
pub enum Cs {
	Pending,
	Running { id: usize, exited: bool },
	Finished,
}

impl Cs {
	fn cls(self) -> Cls {
		match self {
			Cs::Pending => Cls::Pending,
			Cs::Running { .. } => Cls::Running,
			Cs::Finished => Cls::Finished,
		}
	}
}

#[derive(Clone, Copy, Debug, PartialEq, Eq, Hash, PartialOrd, Ord)]
pub enum Ctl {
	Start,
	Stop,
	GracefulStop { sig: i32 },
	TryRestart,
	TryGracefulRestart { sig: i32 },
	Continue,
	Signal { sig: i32 },
	Delete,
	NextEnding,
	Marker { idx: usize, asynchronous: bool },
	SetHook,
	UnsetHook,
	SetErrH,
	UnsetErrH,
}

/// Something the job task does that the harness can see, in order.
#[derive(Clone, Debug, PartialEq, Eq, Hash, PartialOrd, Ord)]
pub enum Out {
	Spawn { id: usize, hook: Option<usize> },
	SpawnFail,
	Sig { id: usize, sig: i32, ok: bool },
	Kill { id: usize, ok: bool },
	Reap { id: usize },
	Drop { id: usize },
	Marker { idx: usize, cur: Cls, prev: Option<Cls> },
	MarkerEnd { idx: usize },
	Hook { n: usize },
	ErrH,
}

impl Out {
	pub fn kind(&self) -> &'static str {
		match self {
			Out::Spawn { .. } => "spawn",
			Out::SpawnFail => "spawn-failure",
			Out::Sig { .. } => "signal",
			Out::Kill { .. } => "kill",
			Out::Reap { .. } => "reap",
			Out::Drop { .. } => "drop",
			Out::Marker { .. } => "run-closure",
			Out::MarkerEnd { .. } => "run-async-end",
			Out::Hook { .. } => "spawn-hook-call",
			Out::ErrH => "error-handler-call",
		}
	}
}

#[derive(Clone, Copy, Debug, PartialEq, Eq, Hash, PartialOrd, Ord)]
pub struct Timer {
	pub deadline: u64,
	pub restart: bool,
	/// op whose ticket the timer carries (None: an inner control of a multi-control op)
	pub ticket: Option<usize>,
}

#[derive(Clone, Debug, PartialEq, Eq, Hash)]
pub struct M {
	pub cs: Cs,
	pub prev: Option<Cls>,
	pub qu: VecDeque<(Ctl, Option<usize>)>,
	pub qh: VecDeque<(Ctl, Option<usize>)>,
	pub qn: VecDeque<(Ctl, Option<usize>)>,
	pub timer: Option<Timer>,
	pub on_end: Vec<Option<usize>>,
	pub restart_pending: Option<Option<usize>>,
	pub hook: bool,
	pub errh: bool,
	pub gone: bool,
	pub closed: bool,
	pub resolved: BTreeSet<usize>,
	pub spawned: usize,
	pub spawn_attempts: usize,
	pub hook_calls: usize,
	pub n_sig: usize,
	pub n_kill: usize,
	pub now: u64,
	pub grace: u64,
	pub spawn_fail_at: Option<usize>,
	pub op_fault: Option<(Fault, usize)>,
	/// outputs of the turn in progress that have not been observed yet
	pub pending_out: VecDeque<Out>,
	/// children spawned and neither reaped nor dropped (model-level invariant)
	pub live: usize,
	pub max_live: usize,
}

#[derive(Clone, Copy, Debug, PartialEq, Eq, Hash)]
pub enum Turn {
	/// observe the end of the running process
	W,
	/// grace timer expiry
	T,
	/// dequeue one control
	C,
	/// the control queue was closed (last handle dropped): the job ends
	End,
}

impl M {
	pub fn new(sc: &Sc) -> Self {
		M {
			cs: Cs::Pending,
			prev: None,
			qu: VecDeque::new(),
			qh: VecDeque::new(),
			qn: VecDeque::new(),
			timer: None,
			on_end: vec![],
			restart_pending: None,
			hook: false,
			errh: sc.errh,
			gone: false,
			closed: false,
			resolved: BTreeSet::new(),
			spawned: 0,
			spawn_attempts: 0,
			hook_calls: 0,
			n_sig: 0,
			n_kill: 0,
			now: 0,
			grace: sc.grace,
			spawn_fail_at: sc.spawn_fail_at,
			op_fault: sc.op_fault,
			pending_out: VecDeque::new(),
			live: 0,
			max_live: 0,
		}
	}

	// ---- environment inputs ----

	/// A public `Job` method was called: expand it into controls as documented.
	pub fn send(&mut self, idx: usize, op: Op) {
		if self.gone {
			// "a send to a job that is already gone yields a resolved ticket"
			self.resolved.insert(idx);
			return;
		}
		let t = Some(idx);
		let (q, ctls): (Prio, Vec<(Ctl, Option<usize>)>) = match op {
			Op::Start => (Prio::Normal, vec![(Ctl::Start, t)]),
			Op::Stop => (Prio::Normal, vec![(Ctl::Stop, t)]),
			Op::GStop => (Prio::Normal, vec![(Ctl::GracefulStop { sig: SIG_GSTOP }, t)]),
			Op::Restart => (Prio::Normal, vec![(Ctl::Stop, None), (Ctl::Start, t)]),
			Op::GRestart => (Prio::Normal, vec![(Ctl::GracefulStop { sig: SIG_GRESTART }, None), (Ctl::Start, t)]),
			Op::TryRestart => (Prio::Normal, vec![(Ctl::TryRestart, t)]),
			Op::TryGRestart => (Prio::Normal, vec![(Ctl::TryGracefulRestart { sig: SIG_TRYGRESTART }, t)]),
			Op::Signal => (Prio::Normal, vec![(Ctl::Signal { sig: SIG_PLAIN }, t)]),
			Op::SigKill => (Prio::Normal, vec![(Ctl::Signal { sig: 9 }, t)]),
			Op::ToWait => (Prio::High, vec![(Ctl::NextEnding, t)]),
			Op::Delete => (Prio::Normal, vec![(Ctl::Stop, None), (Ctl::Delete, t)]),
			Op::DeleteNow => (Prio::Urgent, vec![(Ctl::Stop, None), (Ctl::Delete, t)]),
			Op::Run => (Prio::Normal, vec![(Ctl::Marker { idx, asynchronous: false }, t)]),
			Op::RunAsync => (Prio::Normal, vec![(Ctl::Marker { idx, asynchronous: true }, t)]),
			Op::RunH => (Prio::High, vec![(Ctl::Marker { idx, asynchronous: false }, t)]),
			Op::RunU => (Prio::Urgent, vec![(Ctl::Marker { idx, asynchronous: false }, t)]),
			Op::ContinueRaw => (Prio::Normal, vec![(Ctl::Continue, t)]),
			// only used by the C06 signal side table, never under C09
			Op::SigVar(_) => (Prio::Normal, vec![(Ctl::Signal { sig: SIG_PLAIN }, t)]),
			Op::GStopVar(_) => (Prio::Normal, vec![(Ctl::GracefulStop { sig: SIG_GSTOP }, t)]),
			Op::SetHook => (Prio::Normal, vec![(Ctl::SetHook, t)]),
			Op::UnsetHook => (Prio::Normal, vec![(Ctl::UnsetHook, t)]),
			Op::SetErrH | Op::SetAsyncErrH => (Prio::Normal, vec![(Ctl::SetErrH, t)]),
			Op::UnsetErrH => (Prio::Normal, vec![(Ctl::UnsetErrH, t)]),
		};
		let queue = match q {
			Prio::Normal => &mut self.qn,
			Prio::High => &mut self.qh,
			Prio::Urgent => &mut self.qu,
		};
		queue.extend(ctls);
	}

	pub fn child_exited(&mut self, id: usize) {
		if let Cs::Running { id: cur, exited } = &mut self.cs {
			if *cur == id {
				*exited = true;
			}
		}
	}

	pub fn advance_to(&mut self, t: u64) {
		if t > self.now {
			self.now = t;
		}
	}

	pub fn close(&mut self) {
		self.closed = true;
	}

	// ---- turns ----

	pub fn enabled(&self) -> Vec<Turn> {
		let mut v = vec![];
		if self.gone || !self.pending_out.is_empty() {
			return v;
		}
		if matches!(self.cs, Cs::Running { exited: true, .. }) {
			v.push(Turn::W);
		}
		if self.timer.map_or(false, |t| self.now >= t.deadline) {
			v.push(Turn::T);
		}
		// timer expiry versus an urgent / high control at the same instant: the documented
		// semantics leave the order open (a task polled between the clock reaching the
		// deadline and the timer driver's next turn legitimately sees the timer as pending).
		// Normal controls stay masked for as long as the timer is armed.
		if !self.qu.is_empty() || !self.qh.is_empty() || (self.timer.is_none() && !self.qn.is_empty()) {
			v.push(Turn::C);
		}
		if self.closed && self.qu.is_empty() && self.qh.is_empty() {
			// the queue is closed: ending is allowed as soon as nothing of higher priority is
			// left (whether leftover normal controls still run is not specified)
			v.push(Turn::End);
		}
		v
	}

	fn resolve(&mut self, t: Option<usize>) {
		if let Some(i) = t {
			self.resolved.insert(i);
		}
	}

	fn out(&mut self, o: Out) {
		self.pending_out.push_back(o);
	}

	fn errh_call(&mut self) {
		if self.errh {
			self.out(Out::ErrH);
		}
	}

	fn end_waiters(&mut self) {
		for t in std::mem::take(&mut self.on_end) {
			self.resolve(t);
		}
	}

	/// snapshot previous, run the hook, spawn. Returns false if the spawn failed.
	fn respawn(&mut self) -> bool {
		self.prev = Some(self.cs.cls());
		self.cs = Cs::Pending;
		let hook = if self.hook {
			self.hook_calls += 1;
			let n = self.hook_calls;
			self.out(Out::Hook { n });
			Some(n)
		} else {
			None
		};
		self.spawn_attempts += 1;
		if self.spawn_fail_at == Some(self.spawn_attempts) {
			self.out(Out::SpawnFail);
			self.errh_call();
			false
		} else {
			self.spawned += 1;
			self.live += 1;
			self.max_live = self.max_live.max(self.live);
			let id = self.spawned;
			self.out(Out::Spawn { id, hook });
			self.cs = Cs::Running { id, exited: false };
			true
		}
	}

	/// kill and reap the running process; false if the kill failed (error reported)
	fn kill_and_reap(&mut self, id: usize) -> bool {
		self.n_kill += 1;
		if self.op_fault == Some((Fault::Kill, self.n_kill)) {
			self.out(Out::Kill { id, ok: false });
			self.errh_call();
			return false;
		}
		self.out(Out::Kill { id, ok: true });
		self.out(Out::Reap { id });
		self.live -= 1;
		self.cs = Cs::Finished;
		self.end_waiters();
		true
	}

	fn signal(&mut self, id: usize, sig: i32) -> bool {
		self.n_sig += 1;
		if self.op_fault == Some((Fault::Signal, self.n_sig)) {
			self.out(Out::Sig { id, sig, ok: false });
			self.errh_call();
			return false;
		}
		self.out(Out::Sig { id, sig, ok: true });
		true
	}

	fn finish_job(&mut self) {
		if let Cs::Running { id, .. } = self.cs {
			self.out(Out::Drop { id });
			self.live -= 1;
		}
		self.gone = true;
	}

	pub fn take(&mut self, turn: Turn) {
		match turn {
			Turn::W => {
				let Cs::Running { id, .. } = self.cs else { return };
				self.out(Out::Reap { id });
				self.live -= 1;
				self.cs = Cs::Finished;
				if let Some(t) = self.timer.take() {
					if !t.restart {
						// the graceful stop is complete: "no later than the earlier of the
						// process exiting and the grace period expiring"
						self.resolve(t.ticket);
					}
				}
				self.end_waiters();
				if let Some(t) = self.restart_pending.take() {
					self.respawn();
					self.resolve(t);
				}
			}
			Turn::T => {
				let Some(t) = self.timer.take() else { return };
				if t.restart {
					self.control(Ctl::Continue, t.ticket);
				} else {
					self.control(Ctl::Stop, t.ticket);
				}
			}
			Turn::C => {
				let item = if let Some(x) = self.qu.pop_front() {
					Some(x)
				} else if let Some(x) = self.qh.pop_front() {
					Some(x)
				} else if self.timer.is_none() {
					self.qn.pop_front()
				} else {
					None
				};
				if let Some((c, t)) = item {
					self.control(c, t);
				}
			}
			Turn::End => self.finish_job(),
		}
	}

	fn control(&mut self, c: Ctl, t: Option<usize>) {
		match c {
			Ctl::Start => {
				if !matches!(self.cs, Cs::Running { .. }) {
					self.respawn();
				}
				self.resolve(t);
			}
			Ctl::Stop => {
				if let Cs::Running { id, .. } = self.cs {
					self.kill_and_reap(id);
				}
				self.resolve(t);
			}
			Ctl::GracefulStop { sig } => {
				if let Cs::Running { id, .. } = self.cs {
					if self.signal(id, sig) {
						self.timer = Some(Timer { deadline: self.now + self.grace, restart: false, ticket: t });
						return; // stays open
					}
				}
				self.resolve(t);
			}
			Ctl::TryRestart => {
				if let Cs::Running { id, .. } = self.cs {
					if self.kill_and_reap(id) {
						self.respawn();
					}
				}
				self.resolve(t);
			}
			Ctl::TryGracefulRestart { sig } => {
				if let Cs::Running { id, .. } = self.cs {
					if self.signal(id, sig) {
						self.timer = Some(Timer { deadline: self.now + self.grace, restart: true, ticket: t });
						self.restart_pending = Some(t);
						return; // stays open
					}
				}
				self.resolve(t);
			}
			Ctl::Continue => {
				self.restart_pending = None;
				if let Cs::Running { id, .. } = self.cs {
					if !self.kill_and_reap(id) {
						self.resolve(t);
						return;
					}
				}
				self.respawn();
				self.resolve(t);
			}
			Ctl::Signal { sig } => {
				if let Cs::Running { id, .. } = self.cs {
					self.signal(id, sig);
				}
				self.resolve(t);
			}
			Ctl::Delete => {
				self.resolve(t);
				self.finish_job();
			}
			Ctl::NextEnding => {
				if matches!(self.cs, Cs::Running { .. }) {
					self.on_end.push(t);
				} else {
					self.resolve(t);
				}
			}
			Ctl::Marker { idx, asynchronous } => {
				self.out(Out::Marker { idx, cur: self.cs.cls(), prev: self.prev });
				if asynchronous {
					self.out(Out::MarkerEnd { idx });
				}
				self.resolve(t);
			}
			Ctl::SetHook => {
				self.hook = true;
				self.resolve(t);
			}
			Ctl::UnsetHook => {
				self.hook = false;
				self.resolve(t);
			}
			Ctl::SetErrH => {
				self.errh = true;
				self.resolve(t);
			}
			Ctl::UnsetErrH => {
				self.errh = false;
				self.resolve(t);
			}
		}
	}

	/// Is the ticket of this op resolved as far as a waiter can tell?
	pub fn ticket_done(&self, idx: usize) -> bool {
		self.gone || self.resolved.contains(&idx)
	}
}

// ------------------------------------------------------------------------------------
// Conformance: state-set tracking over an observation log.

#[derive(Clone, Debug)]
pub enum Obs {
	Send { idx: usize, op: Op, to_dead: bool, polled: bool },
	Exited { id: usize },
	Time { t: u64 },
	Close,
	Out(Out),
	/// a quiescent instant: the ops whose (first) waiter has run so far
	Quiescent { resolved: BTreeSet<usize>, sent: Vec<usize> },
}

pub struct Tracker {
	pub states: Vec<M>,
	pub steps: u64,
	pub max_states: usize,
}

fn dedup(v: &mut Vec<M>) {
	let mut seen = std::collections::HashSet::new();
	v.retain(|m| seen.insert(m.clone()));
}

/// States reachable by turns that produce no observable output.
fn silent_closure(states: Vec<M>) -> Vec<M> {
	let mut out = states.clone();
	let mut frontier = states;
	let mut guard = 0;
	while !frontier.is_empty() {
		guard += 1;
		if guard > 64 {
			break;
		}
		let mut next = vec![];
		for s in frontier {
			for t in s.enabled() {
				let mut n = s.clone();
				n.take(t);
				if n.pending_out.is_empty() && !out.contains(&n) {
					out.push(n.clone());
					next.push(n);
				}
			}
		}
		frontier = next;
	}
	out
}

impl Tracker {
	pub fn new(sc: &Sc) -> Self {
		Tracker { states: vec![M::new(sc)], steps: 0, max_states: 1 }
	}

	/// Advance by one observation. Returns a description of what the model allowed if
	/// the observation is not producible.
	pub fn step(&mut self, o: &Obs) -> Result<(), String> {
		self.steps += 1;
		let before = self.states.clone();
		match o {
			Obs::Send { idx, op, to_dead, polled } => {
				// the send lands on some state of the silent closure: the job may or may not
				// have taken its silent turns yet
				let mut cands = silent_closure_keep_pending(std::mem::take(&mut self.states));
				if *polled {
					// ... and, if the job task may have been polled since the previous send, it
					// may be in the middle of a turn none of whose effects is visible yet (the
					// documented semantics do not make a control's execution atomic: an await
					// between taking the control and its first effect is legitimate)
					let mut begun = vec![];
					for c in &cands {
						if !c.pending_out.is_empty() {
							continue;
						}
						for t in c.enabled() {
							let mut n = c.clone();
							n.take(t);
							if !n.pending_out.is_empty() {
								begun.push(n);
							}
						}
					}
					cands.extend(begun);
				}
				let mut next = vec![];
				for mut s in cands {
					if *to_dead && !s.gone {
						continue;
					}
					s.send(*idx, *op);
					next.push(s);
				}
				self.states = next;
			}
			Obs::Exited { id } => {
				for s in &mut self.states {
					s.child_exited(*id);
				}
			}
			Obs::Time { t } => {
				for s in &mut self.states {
					s.advance_to(*t);
				}
			}
			Obs::Close => {
				for s in &mut self.states {
					s.close();
				}
			}
			Obs::Out(out) => {
				let mut next = vec![];
				for s in std::mem::take(&mut self.states) {
					if let Some(front) = s.pending_out.front() {
						if front == out {
							let mut n = s;
							n.pending_out.pop_front();
							next.push(n);
						}
						continue;
					}
					for c in silent_closure(vec![s]) {
						for t in c.enabled() {
							let mut n = c.clone();
							n.take(t);
							if n.pending_out.front() == Some(out) {
								n.pending_out.pop_front();
								next.push(n);
							}
						}
					}
				}
				self.states = next;
			}
			Obs::Quiescent { resolved, sent } => {
				let mut next = vec![];
				for s in silent_closure_keep_pending(std::mem::take(&mut self.states)) {
					// quiescent = nothing owed and nothing enabled — except a grace timer whose
					// deadline was reached less than a tick ago: the documented semantics give
					// the grace period as "at least", an expiry that lands a little after the
					// deadline (a safety margin on the timer) is not a departure from them
					let en = s.enabled();
					let only_fresh_timer = en == [Turn::T] && s.timer.map_or(false, |t| s.now < t.deadline + 1);
					if !s.pending_out.is_empty() || !(en.is_empty() || only_fresh_timer) {
						continue;
					}
					if sent.iter().all(|i| s.ticket_done(*i) == resolved.contains(i)) {
						next.push(s);
					}
				}
				self.states = next;
			}
		}
		dedup(&mut self.states);
		self.max_states = self.max_states.max(self.states.len());
		if self.states.is_empty() {
			return Err(explain(&before, o));
		}
		Ok(())
	}
}

fn silent_closure_keep_pending(states: Vec<M>) -> Vec<M> {
	let (mid, idle): (Vec<M>, Vec<M>) = states.into_iter().partition(|s| !s.pending_out.is_empty());
	let mut v = silent_closure(idle);
	v.extend(mid);
	v
}

fn explain(before: &[M], o: &Obs) -> String {
	match o {
		Obs::Out(out) => {
			let mut allowed: BTreeSet<String> = BTreeSet::new();
			for s in before {
				if let Some(f) = s.pending_out.front() {
					allowed.insert(format!("{f:?}"));
					continue;
				}
				for c in silent_closure(vec![s.clone()]) {
					let en = c.enabled();
					if en.is_empty() {
						allowed.insert("nothing (idle)".into());
					}
					for t in en {
						let mut n = c.clone();
						n.take(t);
						allowed.insert(n.pending_out.front().map_or("nothing (silent turn)".into(), |f| format!("{f:?}")));
					}
				}
			}
			format!("observed {out:?}; the model allows next: {allowed:?}")
		}
		Obs::Quiescent { resolved, sent } => {
			let mut why: BTreeSet<String> = BTreeSet::new();
			for s in silent_closure_keep_pending(before.to_vec()) {
				if let Some(f) = s.pending_out.front() {
					why.insert(format!("model still owes {f:?}"));
				} else if !s.enabled().is_empty() {
					why.insert(format!("model still has enabled turns {:?}", s.enabled()));
				} else {
					let want: Vec<usize> = sent.iter().copied().filter(|i| s.ticket_done(*i)).collect();
					why.insert(format!("model has tickets {want:?} resolved"));
				}
			}
			format!("at a quiescent instant tickets {resolved:?} of {sent:?} had resolved; {why:?}")
		}
		other => format!("no model state accepts {other:?}"),
	}
}

// ------------------------------------------------------------------------------------
// The model as a stateright::Model: all reachable states for a bounded number of sends.

use stateright::{Checker, Model, Property};

#[derive(Clone, Debug, PartialEq, Eq, Hash)]
pub struct SrState {
	pub m: M,
	pub sent: usize,
	pub ticks: u64,
	pub exits: usize,
	/// violated model-level invariant, if any
	pub bad: Option<&'static str>,
}

#[derive(Clone, Debug, PartialEq, Eq, Hash)]
pub enum SrAction {
	Send(Op),
	ChildExit,
	Tick,
	Turn(Turn),
	/// drain the pending outputs of the turn in progress
	Emit,
}

pub struct SrModel {
	pub max_sends: usize,
	pub max_ticks: u64,
	pub grace: u64,
	pub alphabet: Vec<Op>,
}

impl Model for SrModel {
	type State = SrState;
	type Action = SrAction;

	fn init_states(&self) -> Vec<SrState> {
		let sc = Sc::base(vec![], crate::scen::React::Ignore, self.grace);
		vec![SrState { m: M::new(&sc), sent: 0, ticks: 0, exits: 0, bad: None }]
	}

	fn actions(&self, s: &SrState, out: &mut Vec<SrAction>) {
		if s.bad.is_some() {
			return;
		}
		if !s.m.pending_out.is_empty() {
			out.push(SrAction::Emit);
			return;
		}
		if s.sent < self.max_sends {
			for o in &self.alphabet {
				out.push(SrAction::Send(*o));
			}
		}
		if matches!(s.m.cs, Cs::Running { exited: false, .. }) && s.exits < 3 {
			out.push(SrAction::ChildExit);
		}
		if s.m.timer.is_some() && s.ticks < self.max_ticks {
			out.push(SrAction::Tick);
		}
		for t in s.m.enabled() {
			out.push(SrAction::Turn(t));
		}
	}

	fn next_state(&self, s: &SrState, a: SrAction) -> Option<SrState> {
		let mut n = s.clone();
		match a {
			SrAction::Send(op) => {
				n.m.send(n.sent, op);
				n.sent += 1;
			}
			SrAction::ChildExit => {
				if let Cs::Running { id, .. } = n.m.cs {
					n.m.child_exited(id);
					n.exits += 1;
				}
			}
			SrAction::Tick => {
				n.ticks += 1;
				let t = n.m.now + 1;
				n.m.advance_to(t);
			}
			SrAction::Turn(t) => {
				let had_higher = !n.m.qu.is_empty();
				let had_high = !n.m.qh.is_empty();
				let qn_before = n.m.qn.len();
				let qh_before = n.m.qh.len();
				let running_before = matches!(n.m.cs, Cs::Running { .. });
				let spawned_before = n.m.spawned;
				n.m.take(t);
				if t == Turn::C {
					if n.m.qn.len() < qn_before && (had_higher || had_high) {
						n.bad = Some("a normal control was dequeued while a higher-priority one was pending");
					}
					if n.m.qh.len() < qh_before && had_higher {
						n.bad = Some("a high control was dequeued while an urgent one was pending");
					}
				}
				if n.m.spawned > spawned_before && running_before {
					// a spawn in a turn that began with a running process: it must have been
					// reaped in the same turn
					let outs: Vec<&Out> = n.m.pending_out.iter().collect();
					let reap_pos = outs.iter().position(|o| matches!(o, Out::Reap { .. }));
					let spawn_pos = outs.iter().position(|o| matches!(o, Out::Spawn { .. }));
					if !(reap_pos.is_some() && reap_pos < spawn_pos) {
						n.bad = Some("a process was spawned before the previous one had been reaped");
					}
				}
			}
			SrAction::Emit => {
				n.m.pending_out.clear();
			}
		}
		if n.m.max_live > 1 {
			n.bad = Some("two live processes");
		}
		Some(n)
	}

	fn properties(&self) -> Vec<Property<Self>> {
		vec![
			Property::always("model invariants hold", |_, s: &SrState| s.bad.is_none()),
			Property::always("at most one live process", |_, s: &SrState| s.m.live <= 1),
			Property::always("an idle model with nothing armed has resolved every dequeued ticket", |m: &SrModel, s: &SrState| {
				// when nothing is enabled, no timer is armed and nothing is running, every
				// sent ticket must be resolved
				if !s.m.enabled().is_empty() || !s.m.pending_out.is_empty() || s.m.timer.is_some() || matches!(s.m.cs, Cs::Running { .. }) {
					return true;
				}
				let _ = m;
				(0..s.sent).all(|i| s.m.ticket_done(i))
			}),
		]
	}
}

pub struct ModelReport {
	pub states: usize,
	pub max_depth: usize,
	pub violation: Option<String>,
}

pub fn check_model(max_sends: usize, alphabet: Vec<Op>, grace: u64, threads: usize) -> ModelReport {
	let model = SrModel { max_sends, max_ticks: grace + 1, grace, alphabet };
	let checker = model.checker().threads(threads).spawn_bfs().join();
	let mut violation = None;
	for (name, path) in checker.discoveries() {
		violation = Some(format!("{name}: {:?}", path.into_actions()));
	}
	ModelReport { states: checker.unique_state_count(), max_depth: checker.max_depth(), violation }
}
