//! One execution of the supervisor harness: a real `start_job` task with a SimChild,
//! driven by the explorer.

use std::{
	cell::RefCell,
	future::Future,
	pin::Pin,
	sync::{
		atomic::{AtomicUsize, Ordering},
		Arc,
	},
	task::{Context, Poll, RawWaker, RawWakerVTable, Waker},
	time::Duration,
};

use dex::{
	explore::{choose, Bounds, Exec, Kind, Point},
	orch::Obs,
	rt,
};
use simchild::{Ev, FaultOp, Reaction, SimCfg};
use watchexec_supervisor::{
	command::{Command, Program},
	job::{start_job, CommandState, Control, Job, JobTaskContext, Ticket},
	Signal,
};

use crate::{
	mon,
	scen::{Fault, Op, Prio, React, Sc, Waiters},
};

/// What the harness itself knows about an operation it sent.
#[derive(Clone, Debug)]
pub struct OpRec {
	pub idx: usize,
	pub op: Op,
	pub sender: u8,
	/// position in the world log of the "op" record
	pub log_pos: usize,
	pub sent_at: u64,
	/// the job was already gone (by `is_dead`) when the operation was sent
	pub sent_to_dead: bool,
	/// task polls counted by the driver when the operation was sent
	pub polls: u64,
}

#[derive(Default)]
pub struct HState {
	pub ops: Vec<OpRec>,
	/// tickets kept for probing from inside marker closures: (op idx, prio, ticket)
	pub probe_tickets: Vec<(usize, Prio, Ticket)>,
	/// tickets of the operations that may spawn (probed from inside the spawn hook)
	pub spawn_tickets: Vec<(usize, Ticket)>,
	pub handle_dropped: bool,
	pub dead_seen: bool,
	pub violations: Vec<(String, String)>,
	pub quiescent_checks: u64,
	pub model_steps: u64,
}

thread_local! {
	pub static H: RefCell<HState> = RefCell::new(HState::default());
}

pub fn hs<R>(f: impl FnOnce(&mut HState) -> R) -> R {
	H.with(|h| f(&mut h.borrow_mut()))
}

fn noop_waker() -> Waker {
	fn clone(_: *const ()) -> RawWaker {
		RawWaker::new(std::ptr::null(), &VT)
	}
	fn noop(_: *const ()) {}
	static VT: RawWakerVTable = RawWakerVTable::new(clone, noop, noop, noop);
	unsafe { Waker::from_raw(RawWaker::new(std::ptr::null(), &VT)) }
}

pub fn ticket_ready(t: &Ticket) -> bool {
	let w = noop_waker();
	let mut cx = Context::from_waker(&w);
	let mut t = t.clone();
	matches!(Pin::new(&mut t).poll(&mut cx), Poll::Ready(()))
}

fn state_str(ctx: &JobTaskContext<'_>) -> String {
	fn one(s: &CommandState) -> String {
		match s {
			CommandState::Pending => "Pending".into(),
			CommandState::Running { .. } => "Running".into(),
			CommandState::Finished { status, .. } => format!("Finished({status:?})"),
		}
	}
	format!("cur={} prev={}", one(ctx.current), ctx.previous.map_or("None".into(), one))
}

/// Probe, from inside the job task, which high / urgent tickets sent so far are pending.
fn probe_pending(own: Prio) -> String {
	let tickets: Vec<(usize, Prio, Ticket)> = hs(|h| h.probe_tickets.clone());
	let mut v = vec![];
	for (idx, prio, t) in tickets {
		if prio > own && !ticket_ready(&t) {
			v.push(format!("{}{idx}", if prio == Prio::Urgent { "U" } else { "H" }));
		}
	}
	v.join(",")
}

struct YieldOnce(bool);
impl Future for YieldOnce {
	type Output = ();
	fn poll(mut self: Pin<&mut Self>, cx: &mut Context<'_>) -> Poll<()> {
		if self.0 {
			Poll::Ready(())
		} else {
			self.0 = true;
			cx.waker().wake_by_ref();
			Poll::Pending
		}
	}
}

fn send_op(job: &Job, sc: &Sc, idx: usize, op: Op, sender: u8, hook_count: &Arc<AtomicUsize>) -> Ticket {
	let g = rt::TICK * sc.grace as u32;
	let probes = sc.probes;
	match op {
		Op::Start => job.start(),
		Op::Stop => job.stop(),
		Op::GStop => job.stop_with_signal(Signal::Terminate, g),
		Op::Restart => job.restart(),
		Op::GRestart => job.restart_with_signal(Signal::Interrupt, g),
		Op::TryRestart => job.try_restart(),
		Op::TryGRestart => job.try_restart_with_signal(Signal::Hangup, g),
		Op::Signal => job.signal(Signal::User1),
		Op::SigKill => job.signal(Signal::ForceStop),
		Op::ToWait => job.to_wait(),
		Op::Delete => job.delete(),
		Op::DeleteNow => job.delete_now(),
		Op::Run => job.run(move |ctx| {
			let mut s = state_str(ctx);
			if probes {
				s.push_str(&format!(" pending=[{}]", probe_pending(Prio::Normal)));
			}
			simchild::note("marker", idx as i64, sender as i64, s);
		}),
		Op::RunH | Op::RunU => {
			let own = op.prio();
			job.verif_control(
				Control::SyncFunc(Box::new(move |ctx| {
					let mut s = state_str(ctx);
					if probes {
						s.push_str(&format!(" pending=[{}]", probe_pending(own)));
					}
					simchild::note("marker", idx as i64, sender as i64, s);
				})),
				if own == Prio::High { 1 } else { 2 },
			)
		}
		Op::ContinueRaw => job.control(Control::ContinueTryGracefulRestart),
		Op::SigVar(i) => job.signal(crate::scen::signal_table()[i as usize].0),
		Op::GStopVar(i) => job.stop_with_signal(crate::scen::signal_table()[i as usize].0, g),
		Op::RunAsync => job.run_async(move |ctx| {
			let mut s = state_str(ctx);
			if probes {
				s.push_str(&format!(" pending=[{}]", probe_pending(Prio::Normal)));
			}
			simchild::note("marker", idx as i64, sender as i64, s);
			Box::new(async move {
				YieldOnce(false).await;
				simchild::note("marker-end", idx as i64, sender as i64, "");
			})
		}),
		Op::SetHook => {
			let hc = hook_count.clone();
			job.set_spawn_hook(move |cmd, ctx| {
				let n = hc.fetch_add(1, Ordering::SeqCst) + 1;
				cmd.command_mut().env("VERIF_HOOK", n.to_string());
				simchild::note("hook", n as i64, 0, state_str(ctx));
				// the hook runs on behalf of a control that is about to spawn: that control
				// cannot have completed yet, so at least one spawning operation sent so far
				// still has an open ticket
				let tickets: Vec<(usize, Ticket)> = hs(|h| h.spawn_tickets.clone());
				if !tickets.is_empty() && tickets.iter().all(|(_, t)| ticket_ready(t)) {
					let ops = tickets.iter().map(|(i, _)| i.to_string()).collect::<Vec<_>>().join(",");
					hs(|h| {
						h.violations.push((
							"C09/ticket-resolved-before-its-spawn".into(),
							format!("spawn hook call #{n}: the tickets of all spawning operations sent so far (script positions {ops}) have already resolved, although the spawn this hook call belongs to has not happened yet"),
						))
					});
				}
			})
		}
		Op::UnsetHook => job.unset_spawn_hook(),
		Op::SetErrH => job.set_error_handler(|e| simchild::note("errh", 0, 0, e.get().map_or("?".to_string(), |e| e.to_string()))),
		Op::UnsetErrH => job.unset_error_handler(),
		Op::SetAsyncErrH => job.set_async_error_handler(|e| {
			simchild::note("errh", 0, 0, e.get().map_or("?".to_string(), |e| e.to_string()));
			Box::new(async {})
		}),
	}
}

fn sim_cfg(sc: &Sc) -> SimCfg {
	SimCfg {
		reaction: match sc.react {
			React::Ignore => Reaction::Ignore,
			React::ExitNow => Reaction::ExitNow,
			React::After1 => Reaction::After(1),
			React::AfterGrace => Reaction::After(sc.grace),
			React::AfterGrace1 => Reaction::After(sc.grace + 1),
		},
		inert_signals: vec![10, 12],
		spawn_fail_at: sc.spawn_fail_at,
		op_fault: sc.op_fault.map(|(f, n)| {
			(
				match f {
					Fault::Signal => FaultOp::Signal,
					Fault::Kill => FaultOp::Kill,
					Fault::Wait => FaultOp::Wait,
				},
				n,
			)
		}),
	}
}

/// Over-approximation of "two or more sources of the job task's selects may be ready".
fn select_matters(arity: usize) -> bool {
	let (unres_n, unres_h, unres_u, timer_maybe) = hs(|h| {
		let (resolved, log_len) = simchild::with(|w| {
			let mut r = std::collections::HashSet::new();
			for rec in &w.log {
				if let Ev::User { tag: "resolved", a, .. } = &rec.ev {
					r.insert(*a as usize);
				}
			}
			(r, w.log.len())
		});
		let _ = log_len;
		let mut n = false;
		let mut hi = false;
		let mut u = false;
		let mut timer = false;
		for o in &h.ops {
			if o.op.is_graceful() {
				timer = true;
			}
			if resolved.contains(&o.idx) {
				continue;
			}
			match o.op.prio() {
				Prio::Normal => n = true,
				Prio::High => hi = true,
				Prio::Urgent => u = true,
			}
		}
		(n, hi, u, timer)
	});
	let queues = usize::from(unres_n) + usize::from(unres_h) + usize::from(unres_u) + usize::from(timer_maybe);
	match arity {
		// outer select of the job task: child wait vs. control receive
		2 => simchild::unreaped_exited() > 0 && (queues > 0 || hs(|h| h.handle_dropped)),
		// inner select of the priority receiver
		3 => queues >= 2 || (queues >= 1 && hs(|h| h.handle_dropped)),
		_ => true,
	}
}

#[derive(Clone, Copy, PartialEq, Eq, Debug)]
enum Act {
	Op(u8),
	Exit,
	Tick,
	DropHandle,
}

pub fn run(sc: &Sc, bounds: Bounds, prefix: &[Point], monitors: &mon::Set) -> Result<Exec<Obs>, String> {
	H.with(|h| *h.borrow_mut() = HState::default());
	simchild::install(sim_cfg(sc));
	let sc2 = sc.clone();
	let mons = monitors.clone();
	let res = rt::run_one(bounds, prefix, false, move || async move {
		rt::set_select_filter(Some(Box::new(select_matters)));
		body(&sc2, &mons).await
	});
	simchild::uninstall();
	match res {
		Err(rt::RunError::Panic(m)) => Err(format!("harness panic: {m}")),
		Ok(ex) => Ok(ex),
	}
}

async fn body(sc: &Sc, mons: &mon::Set) -> Obs {
	let cmd = Arc::new(Command { program: Program::Exec { prog: "sim".into(), args: vec![] }, options: Default::default() });
	let (job, task) = start_job(cmd);
	let mut job = Some(job);
	let hook_count = Arc::new(AtomicUsize::new(0));
	let mut livelock = false;

	if sc.errh {
		let j = job.as_ref().unwrap();
		let t = j.set_error_handler(|e| simchild::note("errh", 0, 0, e.get().map_or("?".to_string(), |e| e.to_string())));
		if rt::settle_quiet().await.is_err() {
			livelock = true;
		}
		drop(t);
	}

	let senders: Vec<u8> = {
		let mut s: Vec<u8> = sc.script.iter().map(|(_, s)| *s).collect();
		s.sort_unstable();
		s.dedup();
		s
	};
	let mut next_of: Vec<usize> = senders.iter().map(|_| 0).collect(); // per-sender cursor over its own ops
	let per_sender: Vec<Vec<(usize, Op)>> = senders
		.iter()
		.map(|s| sc.script.iter().enumerate().filter(|(_, (_, x))| x == s).map(|(i, (o, _))| (i, *o)).collect())
		.collect();
	let mut exits_done = 0usize;
	let mut pending_fire = false;
	let preempt = true;

	'main: loop {
		if livelock {
			break;
		}
		let quiescent = match rt::settle(preempt, || {}).await {
			Ok(q) => q,
			Err(_) => {
				livelock = true;
				break 'main;
			}
		};
		if quiescent && pending_fire {
			pending_fire = false;
			if simchild::fire_due() > 0 {
				continue;
			}
		}
		if quiescent {
			if let Some(j) = &job {
				if j.is_dead() && !hs(|h| h.dead_seen) {
					hs(|h| h.dead_seen = true);
					simchild::note("dead", 0, 0, "");
				}
			}
			simchild::note("quiescent", 0, 0, "");
			mons.at_quiescence(sc, false);
		}
		let now = rt::now();
		let alive = simchild::alive();
		let time_matters = hs(|h| h.ops.iter().any(|o| o.op.is_graceful())) || simchild::delayed_pending();
		let mut menu: Vec<Act> = vec![];
		if job.is_some() {
			for (si, s) in senders.iter().enumerate() {
				if next_of[si] < per_sender[si].len() {
					menu.push(Act::Op(*s));
				}
			}
		}
		if !alive.is_empty() && exits_done < 2 {
			menu.push(Act::Exit);
		}
		if time_matters && now < sc.horizon && !pending_fire {
			menu.push(Act::Tick);
		}
		if sc.drop_handle && job.is_some() {
			menu.push(Act::DropHandle);
		}
		if menu.is_empty() {
			if !quiescent {
				// preempted with nothing to do: let the tasks finish
				continue;
			}
			break;
		}
		match menu[choose(Kind::Env, menu.len())] {
			Act::Op(s) => {
				let si = senders.iter().position(|x| *x == s).unwrap();
				let upto = if sc.burst { per_sender[si].len() } else { next_of[si] + 1 };
				while next_of[si] < upto {
				let (idx, op) = per_sender[si][next_of[si]];
				next_of[si] += 1;
				let j = job.as_ref().unwrap();
				let dead = j.is_dead();
				simchild::note("op", idx as i64, s as i64, format!("{op:?}"));
				let log_pos = simchild::with(|w| w.log.len() - 1);
				hs(|h| h.ops.push(OpRec { idx, op, sender: s, log_pos, sent_at: now, sent_to_dead: dead, polls: dex::rt::polls() }));
				let t = send_op(j, sc, idx, op, s, &hook_count);
				if op.may_spawn() {
					hs(|h| h.spawn_tickets.push((idx, t.clone())));
				}
				if sc.probes && op.prio() != Prio::Normal {
					hs(|h| h.probe_tickets.push((idx, op.prio(), t.clone())));
				}
				let nw = match sc.waiters {
					Waiters::One => 1,
					Waiters::Clones => 2,
				};
				for w in 0..nw {
					let t = t.clone();
					tokio::spawn(async move {
						t.await;
						simchild::note("resolved", idx as i64, w, "");
					});
				}
				}
			}
			Act::Exit => {
				exits_done += 1;
				simchild::self_exit(&alive[0]);
			}
			Act::Tick => {
				rt::tick().await;
				let due = simchild::with(|w| {
					let now = rt::now();
					w.children.iter().any(|c| {
						let c = c.lock().unwrap();
						c.exited.is_none() && !c.dropped && c.exit_at_tick.map_or(false, |t| t <= now)
					})
				});
				if due {
					// the process ends at the very instant timers for this tick fire: either
					// order of observation is possible
					if choose(Kind::Env, 2) == 0 {
						simchild::fire_due();
					} else {
						pending_fire = true;
					}
				}
			}
			Act::DropHandle => {
				simchild::note("drop-handle", 0, 0, "");
				hs(|h| h.handle_dropped = true);
				job = None;
			}
		}
	}

	// ---- drain: let every pending thing happen under the default schedule ----
	if !livelock {
		for _round in 0..4 {
			if rt::settle_quiet().await.is_err() {
				livelock = true;
				break;
			}
			simchild::fire_due();
			if rt::settle_quiet().await.is_err() {
				livelock = true;
				break;
			}
			if let Some(c) = simchild::alive().first() {
				simchild::note("drain-exit", 0, 0, "");
				simchild::self_exit(c);
			}
			for _ in 0..(sc.grace + 2) {
				rt::tick().await;
				simchild::fire_due();
				if rt::settle_quiet().await.is_err() {
					livelock = true;
					break;
				}
			}
			if simchild::alive().is_empty() && tokio::verif::runnable() == 0 {
				break;
			}
		}
		if let Some(j) = &job {
			if j.is_dead() && !hs(|h| h.dead_seen) {
				hs(|h| h.dead_seen = true);
				simchild::note("dead", 0, 0, "");
			}
		}
	}
	for p in rt::take_panics() {
		simchild::note("panic", 0, 0, p);
	}
	if livelock {
		hs(|h| h.violations.push(("livelock".into(), "tasks kept waking each other for 20000 polls".into())));
	} else {
		simchild::note("quiescent", 1, 0, "");
		mons.at_quiescence(sc, true);
		mons.at_end(sc, task.is_finished());
	}
	let _ = Duration::ZERO;
	drop(job);
	let log = simchild::rendered_log();
	let nontrivial = simchild::with(|w| w.spawned > 0);
	let (violations, qc, ms) = hs(|h| (std::mem::take(&mut h.violations), h.quiescent_checks, h.model_steps));
	task.abort();
	Obs { log, violations, nontrivial, counters: vec![("quiescent_instants_checked", qc), ("model_conformance_steps", ms)] }
}
