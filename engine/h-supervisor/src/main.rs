//! Supervisor harness: C04, C06, C07, C09, C10 on the real `start_job` task.

mod model;
mod mon;
mod real;
mod run;
mod scen;

use dex::{
	explore::{Bounds, Exec, Point},
	orch::{self, Harness, Obs, Tier},
};
use scen::Sc;

struct Sup {
	prop: String,
	set: mon::Set,
}

impl Harness for Sup {
	type Sc = Sc;
	fn name(&self) -> &'static str {
		"h-supervisor"
	}
	fn property(&self) -> &str {
		&self.prop
	}
	fn scenarios(&self, tier: Tier) -> Vec<(Sc, Vec<Bounds>)> {
		let mut v = vec![];
		match self.set {
			mon::Set::C04 => {
				v.extend(scen::core_family(tier));
				v.extend(scen::fault_family(tier));
				v.extend(scen::respawn_fault_family(tier));
			}
			mon::Set::C06 => {
				v.extend(scen::core_family(tier));
				v.extend(scen::order_family(tier).into_iter().filter(|(s, _)| s.script.iter().any(|(o, _)| o.is_graceful())));
				v.extend(scen::sigmap_family(tier));
				v.extend(scen::respawn_fault_family(tier));
			}
			mon::Set::C07 => {
				v.extend(scen::core_family(tier));
				v.extend(scen::fault_family(tier));
				v.extend(scen::waiter_family(tier));
				v.extend(scen::respawn_fault_family(tier));
			}
			mon::Set::C09 => {
				v.extend(scen::core_family(tier));
				v.extend(scen::hook_family(tier));
				v.extend(scen::errh_family(tier));
				v.extend(scen::fault_family(tier).into_iter().filter(|(s, _)| !matches!(s.op_fault, Some((scen::Fault::Wait, _)))));
				v.extend(scen::order_family(tier).into_iter().filter(|(s, b)| s.script.len() <= 4 && b.len() > 1));
				v.extend(scen::waiter_family(tier).into_iter().filter(|(s, _)| s.drop_handle));
				v.extend(scen::respawn_fault_family(tier));
			}
			mon::Set::C10 => {
				v.extend(scen::order_family(tier));
				v.extend(scen::respawn_fault_family(tier));
			}
		}
		if let Ok(f) = std::env::var("VERIF_SCRIPT") {
			// debugging aid: restrict to scenarios whose script renders as the given string
			v.retain(|(s, _)| format!("{:?}", s.script.iter().map(|(o, _)| *o).collect::<Vec<_>>()) == f);
		}
		v
	}
	fn run(&self, sc: &Sc, bounds: Bounds, prefix: &[Point]) -> Result<Exec<Obs>, String> {
		run::run(sc, bounds, prefix, &self.set)
	}
	fn hang_is_violation(&self) -> bool {
		// C04 and C10 are pure safety properties
		!matches!(self.set, mon::Set::C04 | mon::Set::C10)
	}
}

fn main() {
	let argv: Vec<String> = std::env::args().skip(1).collect();
	let args = orch::parse_args(&argv);
	let prop = args.rest.first().cloned().unwrap_or_else(|| {
		eprintln!("usage: h-supervisor <C04|C06|C07|C09|C10> [--tier quick|thorough] [--replay file]");
		std::process::exit(2);
	});
	let set = match prop.as_str() {
		"C04" => mon::Set::C04,
		"C06" => mon::Set::C06,
		"C07" => mon::Set::C07,
		"C09" => mon::Set::C09,
		"C10" => mon::Set::C10,
		_ => {
			eprintln!("unknown property {prop}");
			std::process::exit(2);
		}
	};
	if args.rest.get(1).map(String::as_str) == Some("--real-leg") {
		std::process::exit(real::main_leg());
	}
	// a recorded violation of the real-process leg is replayed by running that leg again
	if let Some(f) = &args.replay {
		let real = std::fs::read_to_string(f).ok().and_then(|t| serde_json::from_str::<serde_json::Value>(&t).ok()).map_or(false, |v| v["scenario"].get("real_case").is_some());
		if real {
			let code = real::main_leg();
			if code == 1 {
				println!("VIOLATION property={prop} replay={}", f.display());
			}
			std::process::exit(code);
		}
	}
	let h = Sup { prop: prop.clone(), set };
	if args.rest.get(1).map(String::as_str) == Some("--count") {
		let s = h.scenarios(args.tier);
		println!("{} scenarios", s.len());
		return;
	}
	let assumptions = vec![
		"atomic step = one task poll on a current-thread tokio runtime (tokio 1.43.0 with three explorer seams)".to_string(),
		"the OS process is simulated by SimChild (cfg(watchexec_verif) factory seam); time is virtual, 1 tick = 10 ms".to_string(),
		"bounds: see coverage.passes (script length, deviation bound k per base policy)".to_string(),
	];
	let rule = "every ENV order (operation sends, child exit, ticks, handle drop) of every scenario, times every SELECT/SCHED/PREEMPT deviation set within the pass bound; an execution is non-trivial if it spawned at least one child; distinct = distinct observation logs";
	let tier = args.tier;
	let post: Option<orch::Post<'_>> = if prop == "C09" && args.worker.is_none() && args.replay.is_none() {
		Some(Box::new(move |cov, viols| {
			// the model itself, exhaustively: every reachable state for a bounded number of sends
			let (sends, alpha): (usize, Vec<scen::Op>) = match tier {
				orch::Tier::Quick => (3, scen::CORE.to_vec()),
				orch::Tier::Thorough => (4, scen::CORE.to_vec()),
			};
			let mut total_states = 0usize;
			let mut depth = 0usize;
			for grace in [0u64, 2] {
				let r = model::check_model(sends, alpha.clone(), grace, 16);
				total_states += r.states;
				depth = depth.max(r.max_depth);
				if let Some(v) = r.violation {
					viols.push(orch::ViolationRec {
						property: "C09".into(),
						key: "C09/model-invariant-violated".into(),
						detail: v,
						harness: "h-supervisor/stateright".into(),
						scenario: serde_json::json!({"model": "JobModel", "sends": sends, "grace": grace}),
						bounds: None,
						choices: vec![],
						log: vec![],
						count: 1,
					});
				}
			}
			cov.insert("jobmodel_stateright_states".into(), serde_json::json!(total_states));
			cov.insert("jobmodel_stateright_max_depth".into(), serde_json::json!(depth));
			cov.insert("jobmodel_bound".into(), serde_json::json!(format!("<= {sends} sends over the {}-operation alphabet, grace in {{0,2}}, <= 3 child exits", alpha.len())));
		}))
	} else if prop == "C07" && args.worker.is_none() && args.replay.is_none() {
		Some(Box::new(move |cov, viols| {
			// LOOM leg: thread interleavings of the real flag.rs
			let bound = match tier {
				orch::Tier::Quick => "3",
				orch::Tier::Thorough => "4",
			};
			let mut cmd = std::process::Command::new(orch::verif_root().join("loomleg/run.sh"));
			cmd.arg(bound);
			match orch::output_with_timeout(cmd, 900) {
				None => {
					cov.insert("loom_leg".into(), serde_json::json!("not completed within its wall limit"));
				}
				Some(o) => {
					let text = String::from_utf8_lossy(&o.stdout).to_string();
					let mut bodies = vec![];
					let mut total = 0u64;
					for l in text.lines().filter(|l| l.starts_with("LOOM body=")) {
						let get = |k: &str| l.split_whitespace().find_map(|t| t.strip_prefix(&format!("{k}="))).unwrap_or("").to_string();
						let (name, ok, n) = (get("body"), get("ok") == "true", get("interleavings").parse::<u64>().unwrap_or(0));
						total += n;
						bodies.push(serde_json::json!({"body": name, "ok": ok, "interleavings": n}));
						if !ok {
							viols.push(orch::ViolationRec {
								property: "C07".into(),
								key: format!("C07/loom/{name}/lost-wake-up-or-deadlock"),
								detail: l.to_string(),
								harness: "loomleg".into(),
								scenario: serde_json::json!({"loom_body": name, "preemption_bound": bound}),
								bounds: None,
								choices: vec![],
								log: vec![],
								count: 1,
							});
						}
					}
					if o.status.code() == Some(2) || bodies.is_empty() {
						// machinery problem in the leg: recorded, not a verdict
						cov.insert("loom_leg".into(), serde_json::json!(format!("machinery error: {}", String::from_utf8_lossy(&o.stderr).chars().take(300).collect::<String>())));
						eprintln!("MACHINERY-WARNING property=C07 loom leg did not run: {}", String::from_utf8_lossy(&o.stderr).chars().take(300).collect::<String>());
					} else {
						cov.insert("loom_leg".into(), serde_json::json!({"preemption_bound": bound, "bodies": bodies, "interleavings_total": total}));
					}
				}
			}
		}))
	} else if prop == "C04" && args.worker.is_none() && args.replay.is_none() {
		Some(Box::new(move |cov, viols| {
			let exe = std::env::current_exe().expect("exe");
			let mut cmd = std::process::Command::new(exe);
			cmd.args(["C04", "--real-leg"]);
			let Some(o) = orch::output_with_timeout(cmd, 300) else {
				cov.insert("real_process_leg".into(), serde_json::json!("not completed within its wall limit (no verdict from this leg)"));
				eprintln!("MACHINERY-WARNING property=C04 real-process leg did not complete");
				return;
			};
			let text = String::from_utf8_lossy(&o.stdout).to_string();
			let mut cases = vec![];
			for l in text.lines().filter(|l| l.starts_with("REAL case=")) {
				let name = l.split_whitespace().find_map(|t| t.strip_prefix("case=")).unwrap_or("?").to_string();
				let ok = l.contains(" ok=true ");
				let detail = l.split(" detail=").nth(1).unwrap_or("").to_string();
				cases.push(serde_json::json!({"case": name, "ok": ok, "detail": detail}));
				if !ok && !detail.starts_with("machinery:") {
					viols.push(orch::ViolationRec {
						property: "C04".into(),
						key: format!("C04/real/{name}"),
						detail,
						harness: "h-supervisor/real".into(),
						scenario: serde_json::json!({"real_case": name}),
						bounds: None,
						choices: vec![],
						log: vec![],
						count: 1,
					});
				}
			}
			cov.insert("real_process_leg".into(), serde_json::json!({"note": "fixed matrix of sequential scripts on real sh/sleep processes (production spawn path); binds SimChild to the OS, not an exploration", "cases": cases}));
		}))
	} else {
		None
	};
	let code = orch::dex_main_with(&h, &args, &[prop], assumptions, rule, post);
	std::process::exit(code);
}
