//! Scenario description and generators for the supervisor harness.

use dex::{
	explore::{Bounds, Policy},
	orch::Tier,
};
use serde::{Deserialize, Serialize};

#[derive(Clone, Copy, Debug, PartialEq, Eq, Hash, Serialize, Deserialize, PartialOrd, Ord)]
pub enum Op {
	Start,
	Stop,
	GStop,
	Restart,
	GRestart,
	TryRestart,
	TryGRestart,
	Signal,
	ToWait,
	Delete,
	DeleteNow,
	Run,
	RunAsync,
	/// marker closure sent at high priority (verif seam)
	RunH,
	/// marker closure sent at urgent priority (verif seam)
	RunU,
	/// raw Control::ContinueTryGracefulRestart through Job::control()
	ContinueRaw,
	/// `signal(Signal::ForceStop)`: kills the process without the job waiting for it
	SigKill,
	/// `signal(SIGNALS[i])` — the whole Signal enumeration (C06 side table)
	SigVar(u8),
	/// `stop_with_signal(SIGNALS[i], grace)`
	GStopVar(u8),
	SetHook,
	UnsetHook,
	SetErrH,
	UnsetErrH,
	/// `set_async_error_handler` (same recording handler, as a future)
	SetAsyncErrH,
}

#[derive(Clone, Copy, Debug, PartialEq, Eq, PartialOrd, Ord)]
pub enum Prio {
	Normal,
	High,
	Urgent,
}

pub const SIG_GSTOP: i32 = 15; // Terminate
pub const SIG_GRESTART: i32 = 2; // Interrupt
pub const SIG_TRYGRESTART: i32 = 1; // Hangup
pub const SIG_PLAIN: i32 = 10; // User1: inert for the simulated child

impl Op {
	pub fn prio(self) -> Prio {
		match self {
			Op::ToWait | Op::RunH => Prio::High,
			Op::DeleteNow | Op::RunU => Prio::Urgent,
			_ => Prio::Normal,
		}
	}
	pub fn graceful_sig(self) -> Option<i32> {
		match self {
			Op::GStop => Some(SIG_GSTOP),
			Op::GRestart => Some(SIG_GRESTART),
			Op::TryGRestart => Some(SIG_TRYGRESTART),
			_ => None,
		}
	}
	pub fn is_graceful(self) -> bool {
		self.graceful_sig().is_some() || matches!(self, Op::GStopVar(_))
	}
	pub fn is_marker(self) -> bool {
		matches!(self, Op::Run | Op::RunAsync | Op::RunH | Op::RunU)
	}
	pub fn may_spawn(self) -> bool {
		matches!(self, Op::Start | Op::Restart | Op::GRestart | Op::TryRestart | Op::TryGRestart | Op::ContinueRaw)
	}
	pub fn ends_job(self) -> bool {
		matches!(self, Op::Delete | Op::DeleteNow)
	}
}

/// (signal, the OS signal number it must be delivered as; unknown numbers fall back to SIGTERM)
pub fn signal_table() -> Vec<(watchexec_signals::Signal, i32)> {
	use watchexec_signals::Signal as S;
	let mut v = vec![(S::Hangup, 1), (S::ForceStop, 9), (S::Interrupt, 2), (S::Quit, 3), (S::Terminate, 15), (S::User1, 10), (S::User2, 12)];
	for n in [1, 2, 3, 6, 9, 10, 12, 14, 15, 17, 18, 19, 31] {
		v.push((S::Custom(n), n));
	}
	for n in [0, -1, 32, 33, 64, 65, 1000, i32::MAX, i32::MIN] {
		v.push((S::Custom(n), 15));
	}
	v
}

pub const CORE: [Op; 13] = [
	Op::ContinueRaw,
	Op::SigKill,
	Op::Start,
	Op::Stop,
	Op::GStop,
	Op::Restart,
	Op::GRestart,
	Op::TryRestart,
	Op::TryGRestart,
	Op::Signal,
	Op::ToWait,
	Op::Delete,
	Op::DeleteNow,
];

pub const CORE8: [Op; 8] = [Op::Start, Op::Stop, Op::GStop, Op::GRestart, Op::TryGRestart, Op::ToWait, Op::Delete, Op::DeleteNow];

#[derive(Clone, Copy, Debug, PartialEq, Eq, Hash, Serialize, Deserialize)]
pub enum React {
	Ignore,
	ExitNow,
	After1,
	/// exits exactly when the grace timer fires
	AfterGrace,
	AfterGrace1,
}

pub const REACTS: [React; 5] = [React::Ignore, React::ExitNow, React::After1, React::AfterGrace, React::AfterGrace1];

#[derive(Clone, Copy, Debug, PartialEq, Eq, Hash, Serialize, Deserialize)]
pub enum Fault {
	Signal,
	Kill,
	Wait,
}

#[derive(Clone, Copy, Debug, PartialEq, Eq, Hash, Serialize, Deserialize)]
pub enum Waiters {
	/// one waiter task per ticket
	One,
	/// a second waiter task on a clone of every ticket
	Clones,
}

#[derive(Clone, Debug, Serialize, Deserialize)]
pub struct Sc {
	/// (operation, sender)
	pub script: Vec<(Op, u8)>,
	pub react: React,
	/// grace period in ticks for the graceful operations
	pub grace: u64,
	pub spawn_fail_at: Option<usize>,
	pub op_fault: Option<(Fault, usize)>,
	pub horizon: u64,
	/// ENV may drop the last job handle at any point
	pub drop_handle: bool,
	pub waiters: Waiters,
	/// install a recording error handler before the script starts
	pub errh: bool,
	/// the marker closures probe pending high / urgent tickets (C10)
	pub probes: bool,
	/// all operations of a sender are sent back to back in one ENV action (nothing is
	/// polled in between)
	#[serde(default)]
	pub burst: bool,
}

impl Sc {
	pub fn base(script: Vec<(Op, u8)>, react: React, grace: u64) -> Self {
		Sc {
			script,
			react,
			grace,
			spawn_fail_at: None,
			op_fault: None,
			horizon: grace + 2,
			drop_handle: false,
			waiters: Waiters::One,
			errh: false,
			probes: false,
			burst: false,
		}
	}
	pub fn uses_time(&self) -> bool {
		self.script.iter().any(|(o, _)| o.is_graceful())
	}
}

pub fn seqs(alpha: &[Op], len: usize) -> Vec<Vec<Op>> {
	let mut out: Vec<Vec<Op>> = vec![vec![]];
	for _ in 0..len {
		out = out
			.into_iter()
			.flat_map(|s| {
				alpha.iter().map(move |o| {
					let mut s = s.clone();
					s.push(*o);
					s
				})
			})
			.collect();
	}
	out
}

fn one_sender(s: &[Op]) -> Vec<(Op, u8)> {
	s.iter().map(|o| (*o, 0)).collect()
}

fn reacts_for(script: &[Op]) -> Vec<React> {
	// the reaction only matters if some operation can deliver a reacting signal
	if script.iter().any(|o| o.is_graceful()) {
		REACTS.to_vec()
	} else {
		vec![React::Ignore]
	}
}

fn graces_for(script: &[Op]) -> Vec<u64> {
	if script.iter().any(|o| o.is_graceful()) {
		vec![0, 2]
	} else {
		vec![2]
	}
}

pub fn both(k: usize) -> Vec<Bounds> {
	if k == 0 {
		vec![Bounds::k(0, Policy::Fifo)]
	} else {
		vec![Bounds::k(k, Policy::Fifo), Bounds::k(k, Policy::Lifo)]
	}
}

/// Scripts always begin from a fresh job; a leading Start is what makes most of the
/// alphabet interesting, so scenario families are "Start + L further operations" as
/// well as bare sequences.
fn scripts_core(alpha: &[Op], len: usize) -> Vec<Vec<Op>> {
	let mut v = vec![];
	for l in 1..=len {
		v.extend(seqs(alpha, l));
	}
	v
}

fn expand(scripts: Vec<Vec<Op>>, passes: Vec<Bounds>) -> Vec<(Sc, Vec<Bounds>)> {
	let mut out = vec![];
	for s in scripts {
		for r in reacts_for(&s) {
			for g in graces_for(&s) {
				if g == 0 && matches!(r, React::After1) {
					// with zero grace "after 1 tick" equals "after grace + 1"
					continue;
				}
				out.push((Sc::base(one_sender(&s), r, g), passes.clone()));
			}
		}
	}
	out
}

/// Shared by C04 / C06 / C07 / C09 (the same exploration with different monitors).
pub fn core_family(tier: Tier) -> Vec<(Sc, Vec<Bounds>)> {
	let mut out = vec![];
	match tier {
		Tier::Quick => {
			// all scripts of length <= 2 at k <= 2 under both base policies
			out.extend(expand(scripts_core(&CORE, 2), [both(0), both(1), both(2)].concat()));
			// every script of length 3 on the default schedule, and "Start + two more
			// operations" at k <= 1
			out.extend(expand(seqs(&CORE, 3), both(0)));
			// bursts: both operations queued before the job task is polled
			out.extend(expand(seqs(&CORE, 2), [both(0), both(1)].concat()).into_iter().map(|(mut s, b)| {
				s.burst = true;
				(s, b)
			}));
			let mut l3 = vec![];
			for s in seqs(&CORE, 2) {
				let mut v = vec![Op::Start];
				v.extend(s);
				l3.push(v);
			}
			out.extend(expand(l3, both(1)));
			// "Start + three more operations" over the operations that end a run without a
			// graceful period (state left behind by one of them must not leak into the
			// handling of the next ones), default schedule
			let mut l4 = vec![];
			for s in seqs(&[Op::Start, Op::Stop, Op::SigKill, Op::TryRestart, Op::ContinueRaw], 3) {
				let mut v = vec![Op::Start];
				v.extend(s);
				l4.push(v);
			}
			out.extend(expand(l4, both(0)));
		}
		Tier::Thorough => {
			out.extend(expand(scripts_core(&CORE, 3), [both(0), both(1), both(2)].concat()));
			out.extend(expand([seqs(&CORE, 2), seqs(&CORE, 3)].concat(), [both(0), both(1)].concat()).into_iter().map(|(mut s, b)| {
				s.burst = true;
				(s, b)
			}));
			let mut l4 = vec![];
			for s in seqs(&CORE8, 3) {
				let mut v = vec![Op::Start];
				v.extend(s);
				l4.push(v);
			}
			out.extend(expand(l4, [both(0), both(1)].concat()));
			let mut l5 = vec![];
			for s in seqs(&[Op::Start, Op::Stop, Op::SigKill, Op::TryRestart, Op::ContinueRaw, Op::Restart], 4) {
				let mut v = vec![Op::Start];
				v.extend(s);
				l5.push(v);
			}
			out.extend(expand(l5, both(0)));
		}
	}
	out
}

/// A replacement that fails to spawn (C06, C07, C10; C04 / C09 see it through the fault
/// family as well): `start`, optionally a wait-for-end, a restarting operation whose respawn
/// fails, optionally one more operation — with a child that exits on the signal, outlives the
/// grace period, or exits a tick later. What a failed respawn leaves behind (a flag, an armed
/// timer, unraised tickets) must not act later.
pub fn respawn_fault_family(tier: Tier) -> Vec<(Sc, Vec<Bounds>)> {
	let mut out = vec![];
	let passes = match tier {
		Tier::Quick => both(0),
		Tier::Thorough => [both(0), both(1)].concat(),
	};
	for pre in [None, Some(Op::ToWait)] {
		for g in [Op::TryGRestart, Op::GRestart, Op::TryRestart, Op::Restart] {
			for post in [None, Some(Op::Start), Some(Op::Run), Some(Op::GStop), Some(Op::ToWait)] {
				let mut s = vec![Op::Start];
				s.extend(pre);
				s.push(g);
				s.extend(post);
				for r in reacts_for(&s) {
					let mut sc = Sc::base(one_sender(&s), r, 2);
					sc.spawn_fail_at = Some(2);
					sc.errh = true;
					sc.probes = post == Some(Op::Run);
					out.push((sc, passes.clone()));
				}
			}
		}
	}
	// history after the failed respawn: two further operations (what the failure left behind —
	// a "retry" flag, a stale timer — may only act on the second one, after an ordinary
	// operation has brought the job back to a healthy running state), k <= 1
	let hist: &[Op] = match tier {
		Tier::Quick => &[Op::Start, Op::Stop, Op::Restart, Op::TryRestart, Op::TryGRestart],
		Tier::Thorough => &[Op::Start, Op::Stop, Op::SigKill, Op::Restart, Op::TryRestart, Op::GRestart, Op::TryGRestart, Op::GStop],
	};
	for g in [Op::TryGRestart, Op::GRestart, Op::TryRestart, Op::Restart] {
		for post in seqs(hist, 2) {
			let mut s = vec![Op::Start, g];
			s.extend(post);
			for r in reacts_for(&s).into_iter().filter(|r| matches!(tier, Tier::Thorough) || matches!(r, React::Ignore | React::ExitNow)) {
				let mut sc = Sc::base(one_sender(&s), r, 2);
				sc.spawn_fail_at = Some(2);
				sc.errh = true;
				out.push((sc, [both(0), both(1)].concat()));
			}
		}
	}
	out
}

/// Spawn failures and operation faults (C04, C07, C09).
pub fn fault_family(tier: Tier) -> Vec<(Sc, Vec<Bounds>)> {
	let mut out = vec![];
	let len = match tier {
		Tier::Quick => 2,
		Tier::Thorough => 3,
	};
	let passes = match tier {
		Tier::Quick => both(0),
		Tier::Thorough => [both(0), both(1)].concat(),
	};
	let alpha = [Op::Start, Op::Stop, Op::GStop, Op::Restart, Op::GRestart, Op::TryRestart, Op::TryGRestart, Op::Signal, Op::ToWait];
	for s in scripts_core(&alpha, len) {
		let spawning = s.iter().filter(|o| o.may_spawn()).count();
		for f in 1..=spawning.min(3) {
			for r in reacts_for(&s).into_iter().filter(|r| matches!(r, React::Ignore | React::ExitNow)) {
				let mut sc = Sc::base(one_sender(&s), r, 2);
				sc.spawn_fail_at = Some(f);
				sc.errh = true;
				out.push((sc, passes.clone()));
			}
		}
		if s.first() == Some(&Op::Start) {
			for (fault, max) in [(Fault::Signal, 2), (Fault::Kill, 2), (Fault::Wait, 2)] {
				for g in 1..=max {
					let mut sc = Sc::base(one_sender(&s), React::Ignore, 2);
					sc.op_fault = Some((fault, g));
					sc.errh = true;
					out.push((sc, passes.clone()));
				}
			}
		}
	}
	out
}

/// Several waiters per ticket, and job termination at any point (C07).
pub fn waiter_family(tier: Tier) -> Vec<(Sc, Vec<Bounds>)> {
	let mut out = vec![];
	let len = match tier {
		Tier::Quick => 2,
		Tier::Thorough => 3,
	};
	let passes = match tier {
		Tier::Quick => both(0),
		Tier::Thorough => [both(0), both(1)].concat(),
	};
	for s in scripts_core(&CORE, len) {
		if !s.contains(&Op::Start) {
			continue;
		}
		for r in [React::Ignore, React::ExitNow] {
			if r == React::ExitNow && !s.iter().any(|o| o.is_graceful()) {
				continue;
			}
			let mut sc = Sc::base(one_sender(&s), r, 2);
			sc.waiters = Waiters::Clones;
			out.push((sc.clone(), passes.clone()));
			sc.waiters = Waiters::One;
			sc.drop_handle = true;
			out.push((sc, passes.clone()));
		}
	}
	out
}

/// Markers mixed with high and urgent controls, one or two senders, with and without an
/// armed grace timer (C10).
pub fn order_family(tier: Tier) -> Vec<(Sc, Vec<Bounds>)> {
	let mut out = vec![];
	let (len, passes) = match tier {
		Tier::Quick => (3, [both(0), both(1)].concat()),
		Tier::Thorough => (4, [both(0), both(1), both(2)].concat()),
	};
	let k0_only = match tier {
		Tier::Quick => both(0),
		Tier::Thorough => [both(0), both(1)].concat(),
	};
	let alpha = [Op::Run, Op::RunAsync, Op::RunH, Op::RunU, Op::ToWait, Op::DeleteNow];
	for pre in [vec![], vec![Op::Start], vec![Op::Start, Op::GStop]] {
		for l in 1..=len {
			for s in seqs(&alpha, l) {
				if !s.iter().any(|o| o.is_marker()) {
					continue;
				}
				// nothing after DeleteNow can be sent to a live job in the settled case, but
				// in a burst it is: keep at most one operation after it
				if let Some(p) = s.iter().position(|o| *o == Op::DeleteNow) {
					if s.len() - p > 2 {
						continue;
					}
				}
				let mut script: Vec<(Op, u8)> = pre.iter().map(|o| (*o, 0)).collect();
				script.extend(s.iter().map(|o| (*o, 0)));
				let mut sc = Sc::base(script, React::Ignore, 2);
				sc.probes = true;
				out.push((sc.clone(), if l == len { k0_only.clone() } else { passes.clone() }));
				// the same body as one burst: everything is queued before the job task looks
				if l >= 2 {
					sc.burst = true;
					out.push((sc, if l == len { k0_only.clone() } else { passes.clone() }));
				}
				// two senders: split the body in every way into an order-preserving pair
				if l >= 2 && l <= 3 {
					for mask in 1..(1u32 << l) - 1 {
						let mut script: Vec<(Op, u8)> = pre.iter().map(|o| (*o, 0)).collect();
						script.extend(s.iter().enumerate().map(|(i, o)| (*o, ((mask >> i) & 1) as u8)));
						let mut sc = Sc::base(script, React::Ignore, 2);
						sc.probes = true;
						out.push((sc, if l == len { k0_only.clone() } else { passes.clone() }));
					}
				}
			}
		}
	}
	// long queues: far more controls pending at one priority than any fixed-size buffer an
	// implementation might use (one burst, default schedule): with and without an armed
	// grace timer holding the normal ones back; every one runs exactly once, in order
	for pre in [vec![Op::Start], vec![Op::Start, Op::GStop]] {
		for (body, n) in [(Op::Run, 1100usize), (Op::RunH, 1100)] {
			let mut script: Vec<(Op, u8)> = pre.iter().map(|o| (*o, 0)).collect();
			script.extend(std::iter::repeat((body, 0)).take(n));
			script.push((Op::RunU, 0));
			script.push((Op::Run, 0));
			let mut sc = Sc::base(script, React::Ignore, 2);
			sc.probes = true;
			sc.burst = true;
			out.push((sc, vec![Bounds::k(0, Policy::Fifo)]));
		}
	}
	out
}

/// The whole signal enumeration through `signal()` and `stop_with_signal()` (C06).
pub fn sigmap_family(_tier: Tier) -> Vec<(Sc, Vec<Bounds>)> {
	let mut out = vec![];
	for i in 0..signal_table().len() as u8 {
		out.push((Sc::base(vec![(Op::Start, 0), (Op::SigVar(i), 0)], React::Ignore, 2), both(0)));
		out.push((Sc::base(vec![(Op::Start, 0), (Op::GStopVar(i), 0)], React::Ignore, 2), both(0)));
	}
	out
}

/// Error-handler changes around a failing spawn (C07, C09): the handler in force when the
/// failure happens is called once — sync, async, replaced, or unset (then nobody is called).
pub fn errh_family(_tier: Tier) -> Vec<(Sc, Vec<Bounds>)> {
	let mut out = vec![];
	let scripts: Vec<Vec<Op>> = vec![
		vec![Op::SetErrH, Op::Start],
		vec![Op::SetAsyncErrH, Op::Start],
		vec![Op::SetErrH, Op::UnsetErrH, Op::Start],
		vec![Op::SetAsyncErrH, Op::UnsetErrH, Op::Start],
		vec![Op::SetErrH, Op::SetAsyncErrH, Op::Start],
		vec![Op::SetAsyncErrH, Op::SetErrH, Op::Start],
		vec![Op::Start, Op::SetAsyncErrH, Op::Restart],
		vec![Op::Start, Op::SetErrH, Op::UnsetErrH, Op::Restart],
		vec![Op::SetAsyncErrH, Op::Start, Op::TryGRestart],
		vec![Op::SetAsyncErrH, Op::Start, Op::UnsetErrH, Op::TryRestart],
	];
	for s in scripts {
		let spawning = s.iter().filter(|o| o.may_spawn()).count();
		for f in 1..=spawning {
			for burst in [false, true] {
				for r in reacts_for(&s).into_iter().filter(|r| matches!(r, React::Ignore | React::ExitNow)) {
					let mut sc = Sc::base(one_sender(&s), r, 2);
					sc.spawn_fail_at = Some(f);
					sc.burst = burst;
					out.push((sc, [both(0), both(1)].concat()));
				}
			}
		}
	}
	out
}

/// Hooks and context probes (C09).
pub fn hook_family(tier: Tier) -> Vec<(Sc, Vec<Bounds>)> {
	let mut out = vec![];
	let (len, passes) = match tier {
		Tier::Quick => (2, both(0)),
		Tier::Thorough => (3, [both(0), both(1)].concat()),
	};
	let alpha = [Op::Start, Op::Stop, Op::Restart, Op::TryRestart, Op::TryGRestart, Op::Run, Op::UnsetHook, Op::SetHook];
	for s in scripts_core(&alpha, len) {
		if !s.iter().any(|o| o.may_spawn()) {
			continue;
		}
		let mut v = vec![Op::SetHook];
		v.extend(s);
		for r in [React::Ignore, React::ExitNow] {
			if r == React::ExitNow && !v.iter().any(|o| o.is_graceful()) {
				continue;
			}
			out.push((Sc::base(one_sender(&v), r, 2), passes.clone()));
			// the same as one burst: hook changes are ordinary controls and keep their place in
			// the queue (a hook set or unset after a start must not overtake it)
			let mut b = Sc::base(one_sender(&v), r, 2);
			b.burst = true;
			out.push((b, passes.clone()));
		}
	}
	// one-shot hook around a start, and a hook change queued behind a pending start
	for s in [
		vec![Op::SetHook, Op::Start, Op::UnsetHook],
		vec![Op::Start, Op::SetHook],
		vec![Op::SetHook, Op::Start, Op::UnsetHook, Op::Restart],
		vec![Op::Start, Op::SetHook, Op::Restart, Op::UnsetHook],
		vec![Op::SetHook, Op::Start, Op::TryGRestart, Op::UnsetHook],
	] {
		for r in [React::Ignore, React::ExitNow] {
			if r == React::ExitNow && !s.iter().any(|o| o.is_graceful()) {
				continue;
			}
			let mut b = Sc::base(one_sender(&s), r, 2);
			b.burst = true;
			out.push((b, [both(0), both(1)].concat()));
		}
	}
	out
}
