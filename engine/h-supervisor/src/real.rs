//! Real-process leg for C04 / C06: the production spawn path (no factory installed) with
//! real `sh`/`sleep` children on a real runtime. A fixed matrix of sequential scripts —
//! not an exploration — binding what the SimChild models (kill + wait collects the status,
//! signal delivery, kill at grace expiry) to the OS. Prints one line per case.

use std::{
	path::PathBuf,
	sync::{Arc, Mutex},
	time::{Duration, Instant},
};

use watchexec_supervisor::{
	command::{Command, Program, Shell, SpawnOptions},
	job::{start_job, Control},
	Signal,
};

fn pid_state(pid: i32) -> Option<char> {
	let s = std::fs::read_to_string(format!("/proc/{pid}/stat")).ok()?;
	s.rsplit(')').next()?.trim().chars().next()
}

fn logged(pidfile: &PathBuf) -> Vec<i32> {
	std::fs::read_to_string(pidfile).unwrap_or_default().lines().filter_map(|l| l.trim().parse().ok()).collect()
}

#[derive(Clone, Copy, Debug)]
enum Step {
	Start,
	Stop,
	Restart,
	TryRestart,
	GRestart(u64),
	TryGRestart(u64),
	GStop(u64),
	ContinueRaw,
	Delete,
}

struct Case {
	name: &'static str,
	ignores_term: bool,
	grouped: bool,
	steps: Vec<Step>,
}

fn cases() -> Vec<Case> {
	use Step::*;
	vec![
		Case { name: "restart-twice", ignores_term: false, grouped: false, steps: vec![Start, Restart, Restart, Stop] },
		Case { name: "try-restarts", ignores_term: false, grouped: true, steps: vec![Start, TryRestart, TryGRestart(300), Stop] },
		Case { name: "graceful-restart-ignored-signal", ignores_term: true, grouped: true, steps: vec![Start, GRestart(200), GStop(200)] },
		Case { name: "raw-continue", ignores_term: false, grouped: false, steps: vec![Start, ContinueRaw, Stop] },
		Case { name: "delete-running", ignores_term: false, grouped: true, steps: vec![Start, Restart, Delete] },
		Case { name: "graceful-stop-exits", ignores_term: false, grouped: false, steps: vec![Start, GStop(500), Start, Stop] },
	]
}

pub fn main_leg() -> i32 {
	let dir = PathBuf::from(format!("/dev/shm/verif-c04real-{}", std::process::id()));
	let _ = std::fs::create_dir_all(&dir);
	let mut rc = 0;
	for case in cases() {
		let pidfile = dir.join(case.name);
		let _ = std::fs::remove_file(&pidfile);
		let pf = pidfile.clone();
		let problems: Arc<Mutex<Vec<String>>> = Arc::default();
		let pr = problems.clone();
		let rt = tokio::runtime::Builder::new_multi_thread().worker_threads(2).enable_all().build().expect("rt");
		let name = case.name;
		let res: Result<(), String> = rt.block_on(async move {
			let script = format!("{}echo $$ >> {}; exec sleep 30", if case.ignores_term { "trap '' TERM; " } else { "" }, pf.display());
			let command = Arc::new(Command {
				program: Program::Shell { shell: Shell::new("sh"), command: script, args: vec![] },
				options: SpawnOptions { grouped: case.grouped, ..Default::default() },
			});
			let (job, task) = start_job(command);
			// the spawn hook runs immediately before every spawn: nothing spawned earlier may
			// still exist (not even as a zombie: its status must have been collected)
			let pf2 = pf.clone();
			let pr2 = pr.clone();
			job.set_spawn_hook(move |_, _| {
				for p in logged(&pf2) {
					if let Some(st) = pid_state(p) {
						pr2.lock().unwrap().push(format!("about to spawn while process {p} still exists (state {st})"));
					}
				}
			});
			let wait_pid = |n: usize| {
				let pf = pf.clone();
				async move {
					let t0 = Instant::now();
					while logged(&pf).len() < n {
						if t0.elapsed() > Duration::from_secs(30) {
							return Err(format!("child #{n} did not report its pid within 30 s"));
						}
						tokio::time::sleep(Duration::from_millis(10)).await;
					}
					Ok(())
				}
			};
			let mut expect_pids = 0usize;
			for (i, st) in case.steps.iter().enumerate() {
				let before = logged(&pf).len();
				let t0 = Instant::now();
				let ticket = match st {
					Step::Start => job.start(),
					Step::Stop => job.stop(),
					Step::Restart => job.restart(),
					Step::TryRestart => job.try_restart(),
					Step::GRestart(ms) => job.restart_with_signal(Signal::Terminate, Duration::from_millis(*ms)),
					Step::TryGRestart(ms) => job.try_restart_with_signal(Signal::Terminate, Duration::from_millis(*ms)),
					Step::GStop(ms) => job.stop_with_signal(Signal::Terminate, Duration::from_millis(*ms)),
					Step::ContinueRaw => job.control(Control::ContinueTryGracefulRestart),
					Step::Delete => job.delete(),
				};
				if tokio::time::timeout(Duration::from_secs(30), ticket).await.is_err() {
					pr.lock().unwrap().push(format!("step {i} ({st:?}): ticket did not resolve within 30 s"));
					break;
				}
				let took = t0.elapsed();
				let spawns = matches!(st, Step::Start | Step::Restart | Step::TryRestart | Step::GRestart(_) | Step::TryGRestart(_) | Step::ContinueRaw);
				if spawns {
					expect_pids += 1;
					wait_pid(expect_pids).await?;
				}
				// a graceful operation on a child that ignores the signal must take the grace period
				if case.ignores_term {
					if let Step::GRestart(ms) | Step::GStop(ms) | Step::TryGRestart(ms) = st {
						if took < Duration::from_millis(*ms) && before > 0 {
							pr.lock().unwrap().push(format!("step {i} ({st:?}) completed after {took:?}: the child ignores the signal, so it was killed before the grace period"));
						}
					}
				}
				// at most one live process of this job at any time
				let live: Vec<i32> = logged(&pf).into_iter().filter(|p| pid_state(*p).map_or(false, |s| s != 'Z')).collect();
				if live.len() > 1 {
					pr.lock().unwrap().push(format!("after step {i} ({st:?}): processes {live:?} alive at once"));
				}
				if matches!(st, Step::Stop | Step::GStop(_) | Step::Delete) && !live.is_empty() {
					// Delete's ticket resolves before the task drops the child: give it a moment
					tokio::time::sleep(Duration::from_millis(300)).await;
					let live: Vec<i32> = logged(&pf).into_iter().filter(|p| pid_state(*p).map_or(false, |s| s != 'Z')).collect();
					if !live.is_empty() {
						pr.lock().unwrap().push(format!("after step {i} ({st:?}): processes {live:?} still alive"));
					}
				}
			}
			drop(job);
			let _ = tokio::time::timeout(Duration::from_secs(5), task).await;
			Ok(())
		});
		// a subject task that spins without yielding would block an ordinary runtime drop forever
	rt.shutdown_timeout(Duration::from_secs(2));
		std::thread::sleep(Duration::from_millis(100));
		let mut probs = problems.lock().unwrap().clone();
		let left: Vec<i32> = logged(&pidfile).into_iter().filter(|p| pid_state(*p).map_or(false, |s| s != 'Z')).collect();
		if !left.is_empty() {
			probs.push(format!("processes {left:?} alive after the job was dropped"));
			for p in &left {
				extern "C" {
					fn kill(pid: i32, sig: i32) -> i32;
				}
				unsafe {
					kill(*p, 9);
				}
			}
		}
		match res {
			Err(e) => println!("REAL case={name} ok=false detail=machinery: {e}"),
			Ok(()) => {
				let ok = probs.is_empty();
				println!("REAL case={name} ok={ok} detail={}", probs.join("; "));
				if !ok {
					rc = 1;
				}
			}
		}
	}
	let _ = std::fs::remove_dir_all(&dir);
	rc
}
