//! Direct monitors over the observation log (C04, C06, C07, C10). They use only
//! observable events — the simulated child's call log, marker closures, waiter tasks,
//! `Job::is_dead`, the job task's JoinHandle — never the implementation's state.

use std::collections::{BTreeMap, BTreeSet};

use simchild::{Ev, Rec};

use crate::{
	run::{hs, OpRec},
	scen::{Op, Prio, Sc, Waiters, SIG_GRESTART, SIG_GSTOP, SIG_TRYGRESTART},
};

#[derive(Clone, Debug, PartialEq, Eq)]
pub enum Set {
	C04,
	C06,
	C07,
	C09,
	C10,
}

struct Facts {
	log: Vec<Rec>,
	ops: Vec<OpRec>,
	/// child id -> log position of its reap or drop
	gone_at: BTreeMap<usize, usize>,
	/// (op idx, waiter) -> log position
	resolved: BTreeMap<(usize, i64), usize>,
	/// (log pos, t0, child, sig)
	gsigs: Vec<(usize, u64, usize, i32)>,
	/// (log pos, op idx, sender, text)
	markers: Vec<(usize, usize, u8, String)>,
	spawns: Vec<(usize, usize)>,
	live: usize,
	overlaps: Vec<(usize, Vec<usize>)>,
}

fn facts() -> Facts {
	let (log, live, overlaps) = simchild::with(|w| (w.log.clone(), w.live, w.overlaps.clone()));
	let ops = hs(|h| h.ops.clone());
	let mut f = Facts { log, ops, gone_at: BTreeMap::new(), resolved: BTreeMap::new(), gsigs: vec![], markers: vec![], spawns: vec![], live, overlaps };
	for (i, r) in f.log.iter().enumerate() {
		match &r.ev {
			Ev::Reap { id, .. } | Ev::Drop { id } => {
				f.gone_at.entry(*id).or_insert(i);
			}
			Ev::Sig { id, sig, ok: true } if [SIG_GSTOP, SIG_GRESTART, SIG_TRYGRESTART].contains(sig) => {
				f.gsigs.push((i, r.t, *id, *sig));
			}
			Ev::Spawn { id, .. } => f.spawns.push((i, *id)),
			Ev::User { tag: "resolved", a, b, .. } => {
				f.resolved.entry((*a as usize, *b)).or_insert(i);
			}
			Ev::User { tag: "marker", a, b, s } => f.markers.push((i, *a as usize, *b as u8, s.clone())),
			_ => {}
		}
	}
	f
}

fn op_of_sig(sig: i32) -> Op {
	match sig {
		SIG_GSTOP => Op::GStop,
		SIG_GRESTART => Op::GRestart,
		_ => Op::TryGRestart,
	}
}

impl Facts {
	/// The graceful operation a signal record belongs to: among the operations of the
	/// matching kind sent before it whose ticket was not resolved before it, the latest
	/// (exact when there is one candidate; with several it under-approximates what is
	/// held back, never over-approximates).
	fn attribute(&self, pos: usize, sig: i32) -> Option<&OpRec> {
		let kind = op_of_sig(sig);
		self.ops
			.iter()
			.filter(|o| o.op == kind && o.log_pos < pos)
			.filter(|o| self.resolved.get(&(o.idx, 0)).map_or(true, |p| *p > pos))
			.last()
	}
	/// Like `attribute`, but only when exactly one operation can own the signal.
	fn attribute_unique(&self, pos: usize, sig: i32) -> Option<&OpRec> {
		let kind = op_of_sig(sig);
		let c: Vec<&OpRec> = self
			.ops
			.iter()
			.filter(|o| o.op == kind && o.log_pos < pos)
			.filter(|o| self.resolved.get(&(o.idx, 0)).map_or(true, |p| *p > pos))
			.collect();
		if c.len() == 1 {
			Some(c[0])
		} else {
			None
		}
	}
	fn push(&self, key: String, detail: String) {
		hs(|h| {
			if !h.violations.iter().any(|(k, _)| *k == key) {
				h.violations.push((key, detail));
			}
		});
	}
	fn last_op_before(&self, pos: usize) -> String {
		self.ops.iter().filter(|o| o.log_pos < pos).last().map_or("none".into(), |o| format!("{:?}", o.op))
	}
	fn urgent_sent_before(&self, pos: usize) -> bool {
		self.ops.iter().any(|o| o.op == Op::DeleteNow && o.log_pos < pos)
	}
}

impl Set {
	/// Deadline-style clauses, evaluated when no task is runnable.
	pub fn at_quiescence(&self, sc: &Sc, after_drain: bool) {
		hs(|h| h.quiescent_checks += 1);
		let f = facts();
		let now = dex::rt::now();
		match self {
			Set::C04 => {
				if let Some((id, others)) = f.overlaps.first() {
					let pos = f.spawns.iter().find(|(_, i)| i == id).map_or(0, |(p, _)| *p);
					f.push(
						format!("C04/two-live-children/after-{}", f.last_op_before(pos)),
						format!("spawn#{id} while {others:?} spawned and not reaped"),
					);
				}
				if f.live > 1 {
					f.push("C04/live-count-above-one".into(), format!("live={}", f.live));
				}
				// a replacement may only be spawned once the previous exit status was collected:
				// dropping the handle kills the process but collects nothing
				for (sp, sid) in &f.spawns {
					for (i, r) in f.log.iter().enumerate().take(*sp) {
						if let Ev::Drop { id } = &r.ev {
							let reaped_before = f.log[..i].iter().any(|x| matches!(&x.ev, Ev::Reap { id: j, .. } if j == id));
							if !reaped_before {
								f.push(
									format!("C04/spawn-after-unreaped-drop/after-{}", f.last_op_before(*sp)),
									format!("spawn#{sid} at log {sp}: child #{id} was dropped at log {i} without its exit status having been collected"),
								);
							}
						}
					}
				}
			}
			Set::C06 => c06_quiescent(&f, sc, now),
			Set::C07 => c07_quiescent(&f, sc, now, after_drain),
			Set::C10 | Set::C09 => {}
		}
	}

	/// Existence-style clauses, evaluated after the drain phase.
	pub fn at_end(&self, sc: &Sc, task_finished: bool) {
		let f = facts();
		match self {
			Set::C04 => {}
			Set::C06 => c06_end(&f, sc),
			Set::C07 => c07_end(&f, sc, task_finished),
			Set::C10 => c10_end(&f, sc),
			Set::C09 => c09_end(&f, sc),
		}
	}
}

fn c06_quiescent(f: &Facts, sc: &Sc, now: u64) {
	let g = sc.grace;
	// (b) no forced kill before the grace period has elapsed
	for (i, r) in f.log.iter().enumerate() {
		if let Ev::Kill { id, ok: true } = &r.ev {
			if let Some((ps, t0, _, sig)) = f.gsigs.iter().find(|(p, _, c, _)| c == id && *p < i) {
				if r.t < t0 + g && !f.urgent_sent_before(i) {
					f.push(
						format!("C06/kill-before-grace/{:?}", op_of_sig(*sig)),
						format!("kill#{id} at t{} but signalled at t{t0} (log {ps}) with grace {g}", r.t),
					);
				}
			}
		}
	}
	// (c) killed and reaped once the grace period has elapsed — "when the grace period
	// elapses" is read with one tick of tolerance (a safety margin on the timer is not a
	// violation of this property; C07 / C09 pin the ticket to the expiry itself)
	if sc.op_fault.is_none() {
		for (ps, t0, c, sig) in &f.gsigs {
			if now >= t0 + g + 1 && !f.gone_at.contains_key(c) {
				f.push(
					format!("C06/not-reaped-at-expiry/{:?}", op_of_sig(*sig)),
					format!("child #{c} signalled at t{t0} (log {ps}), grace {g}, still unreaped at quiescent t{now}"),
				);
			}
		}
	}
	// (d) later normal-priority controls are held back until the process has ended
	for (ps, _t0, c, sig) in &f.gsigs {
		let Some(gop) = f.attribute(*ps, *sig) else { continue };
		let end = f.gone_at.get(c).copied().unwrap_or(usize::MAX);
		for (pm, idx, _, _) in &f.markers {
			let Some(m) = f.ops.iter().find(|o| o.idx == *idx) else { continue };
			if m.op.prio() == Prio::Normal && m.log_pos > gop.log_pos && *pm > *ps && *pm < end {
				f.push(
					format!("C06/normal-control-ran-during-grace/{:?}", gop.op),
					format!("marker of op {idx} ran at log {pm}, child #{c} signalled at log {ps} and not ended before log {end}"),
				);
			}
		}
	}
}

/// side table: every Signal value is delivered as the documented OS signal
fn c06_sigmap(f: &Facts, sc: &Sc) {
	let table = crate::scen::signal_table();
	for (op, _) in &sc.script {
		let (i, graceful) = match op {
			Op::SigVar(i) => (*i, false),
			Op::GStopVar(i) => (*i, true),
			_ => continue,
		};
		let (sig, want) = table[i as usize];
		let Some(o) = f.ops.iter().find(|o| o.op == *op) else { continue };
		// the child was running when the operation was sent at a quiescent instant
		let sigs: Vec<i32> = f.log[o.log_pos..].iter().filter_map(|r| if let Ev::Sig { sig, ok: true, .. } = &r.ev { Some(*sig) } else { None }).collect();
		let spawned_before = f.spawns.iter().any(|(p, _)| *p < o.log_pos);
		let ended_before = f.gone_at.values().any(|p| *p < o.log_pos);
		if spawned_before && !ended_before && sigs.first() != Some(&want) {
			f.push(
				format!("C06/signal-mapping/{}/{sig:?}", if graceful { "stop_with_signal" } else { "signal" }),
				format!("{sig:?} must be delivered as OS signal {want}; the child received {sigs:?}"),
			);
		}
	}
}

/// Every operation runs once, so it spawns at most once: the number of spawn attempts
/// (successful or failed) never exceeds the number of operations sent that may spawn.
/// What a failed respawn leaves behind (a restart flag, an armed timer) shows up here as an
/// attempt nobody asked for.
fn spawn_attempts_exceed_ops(f: &Facts) -> Option<(usize, usize)> {
	let attempts = f.log.iter().filter(|r| matches!(r.ev, Ev::Spawn { .. } | Ev::SpawnFail { .. })).count();
	let ops = f.ops.iter().filter(|o| o.op.may_spawn() && !o.sent_to_dead).count();
	(attempts > ops).then_some((attempts, ops))
}

fn c06_end(f: &Facts, sc: &Sc) {
	c06_sigmap(f, sc);
	// (e') "the replacement ... starts exactly once", also when it fails to start
	if let Some((attempts, ops)) = spawn_attempts_exceed_ops(f) {
		if sc.script.iter().any(|(o, _)| o.is_graceful()) {
			f.push(
				format!("C06/replacement-started-again/{}-spawn-attempts-for-{}-spawning-operations", attempts, ops),
				format!("{attempts} spawn attempts (failed ones included) for {ops} operations that may spawn"),
			);
		}
	}
	// (a) the requested signal comes first, whatever the grace period (zero included): in a
	// script whose only process-ending operations are graceful ones, nothing may be killed
	// that was not sent one of their signals before
	let only_graceful_endings = !sc.drop_handle
		&& sc.op_fault.is_none()
		&& sc.script.iter().all(|(o, _)| !matches!(o, Op::Stop | Op::Restart | Op::TryRestart | Op::Delete | Op::DeleteNow | Op::SigKill | Op::ContinueRaw | Op::SigVar(_)));
	if only_graceful_endings {
		for (i, r) in f.log.iter().enumerate() {
			if let Ev::Kill { id, .. } = &r.ev {
				let signalled = f.log[..i].iter().any(|x| matches!(&x.ev, Ev::Sig { id: c, .. } if c == id));
				if !signalled {
					let ops: Vec<String> = sc.script.iter().filter(|(o, _)| o.is_graceful()).map(|(o, _)| format!("{o:?}")).collect();
					f.push(
						format!("C06/killed-without-the-requested-signal/{}", ops.first().cloned().unwrap_or_default()),
						format!("kill#{id} at t{} (log {i}) with no signal delivered to that process before; grace {}", r.t, sc.grace),
					);
				}
			}
		}
	}
	// (e) a graceful restart starts the replacement exactly once
	if sc.spawn_fail_at.is_some() || sc.op_fault.is_some() || sc.drop_handle {
		return;
	}
	for (ps, _t0, c, sig) in &f.gsigs {
		let kind = op_of_sig(*sig);
		if kind == Op::GStop {
			continue;
		}
		let Some(gop) = f.attribute_unique(*ps, *sig) else { continue };
		let later_relevant = sc.script.iter().enumerate().any(|(i, (o, _))| i > gop.idx && (o.may_spawn() || o.ends_job()));
		let earlier_end = sc.script.iter().enumerate().any(|(i, (o, _))| i < gop.idx && o.ends_job());
		if later_relevant || earlier_end {
			continue;
		}
		// operations of the script that were never sent cannot interfere either
		let n = f.spawns.iter().filter(|(p, _)| p > ps).count();
		if n != 1 {
			f.push(
				format!("C06/restart-replacement-count-{n}/{kind:?}"),
				format!("after the graceful restart signalled child #{c} at log {ps} there were {n} spawns"),
			);
		}
	}
}

fn waiters_of(sc: &Sc) -> i64 {
	match sc.waiters {
		Waiters::One => 1,
		Waiters::Clones => 2,
	}
}

fn child_class(f: &Facts) -> &'static str {
	if f.spawns.is_empty() {
		"never-started"
	} else if f.live > 0 {
		"child-live"
	} else {
		"child-ended"
	}
}

fn c07_quiescent(f: &Facts, sc: &Sc, now: u64, after_drain: bool) {
	let nw = waiters_of(sc);
	let dead_seen = hs(|h| h.dead_seen);
	let g = sc.grace;
	let missing = |o: &OpRec| -> Vec<i64> { (0..nw).filter(|w| !f.resolved.contains_key(&(o.idx, *w))).collect() };
	if dead_seen {
		for o in &f.ops {
			let m = missing(o);
			if !m.is_empty() {
				let cause = if f.ops.iter().any(|x| x.op == Op::DeleteNow) {
					"delete-now"
				} else if f.ops.iter().any(|x| x.op == Op::Delete) {
					"delete"
				} else {
					"other"
				};
				f.push(
					format!("C07/unresolved-after-job-gone/{cause}/{:?}/waiters-missing-{}-of-{nw}", o.op, m.len()),
					format!("job is dead but waiters {m:?} of op {} ({:?}) have not run", o.idx, o.op),
				);
			}
		}
		return;
	}
	// a graceful wait in progress: signalled, not ended, deadline not reached — or reached
	// less than one tick ago (the expiry itself may carry a small safety margin; what C07
	// is about is that the ticket does resolve, with the completion of the control)
	let in_progress = !after_drain
		&& f.gsigs.iter().any(|(_, t0, c, _)| !f.gone_at.contains_key(c) && now < t0 + g + 1);
	let first_open_graceful = if in_progress {
		f.ops.iter().find(|o| o.op.is_graceful() && !f.resolved.contains_key(&(o.idx, 0))).map(|o| o.log_pos)
	} else {
		None
	};
	let child_live = f.live > 0;
	for o in &f.ops {
		let m = missing(o);
		if m.is_empty() {
			continue;
		}
		let allowed = match first_open_graceful {
			Some(p) if o.log_pos >= p && o.op.prio() == Prio::Normal => true,
			_ => o.op == Op::ToWait && child_live,
		};
		if allowed {
			continue;
		}
		let how = if m.len() as i64 == nw { "all".to_string() } else { format!("{}-of-{nw}", m.len()) };
		f.push(
			format!("C07/ticket-open/{:?}/{}/waiters-missing-{how}{}", o.op, child_class(f), if after_drain { "/final" } else { "" }),
			format!(
				"op {} ({:?}) sent at t{}: waiters {m:?} have not run at quiescent t{now}; graceful wait in progress: {in_progress}",
				o.idx, o.op, o.sent_at
			),
		);
	}
}

fn c07_end(f: &Facts, sc: &Sc, task_finished: bool) {
	for r in &f.log {
		if let Ev::User { tag: "panic", s, .. } = &r.ev {
			if s.contains("/repo/") {
				let loc = s.split(": ").next().unwrap_or("?").rsplit("/repo/").next().unwrap_or("?").to_string();
				f.push(format!("C07/job-task-panicked/{loc}"), s.clone());
			}
		}
	}
	let dead_seen = hs(|h| h.dead_seen);
	let dropped = hs(|h| h.handle_dropped);
	let nw = waiters_of(sc);
	if task_finished && !dead_seen {
		// the task is over: whatever the reason, nobody may be left waiting
		for o in &f.ops {
			let m: Vec<i64> = (0..nw).filter(|w| !f.resolved.contains_key(&(o.idx, *w))).collect();
			if !m.is_empty() {
				f.push(
					format!("C07/unresolved-after-job-task-ended/{}/{:?}", if dropped { "handle-dropped" } else { "other" }, o.op),
					format!("job task has ended, waiters {m:?} of op {} never ran", o.idx),
				);
			}
		}
	}
	if dropped && !task_finished {
		f.push("C07/job-task-alive-after-last-handle-dropped".into(), "after the drain phase the job task is still running".into());
	}
	// every marker at most once; exactly once if the job outlived it
	let ended = dead_seen || task_finished;
	for o in f.ops.iter().filter(|o| o.op.is_marker()) {
		let n = f.markers.iter().filter(|(_, i, _, _)| *i == o.idx).count();
		if n > 1 || (n == 0 && !ended && !o.sent_to_dead) {
			f.push(format!("C07/control-ran-{n}-times/{:?}", o.op), format!("marker of op {} ran {n} times", o.idx));
		}
	}
	// every injected fault reaches the error handler exactly once
	if sc.errh {
		let faults = f
			.log
			.iter()
			.filter(|r| matches!(r.ev, Ev::SpawnFail { .. } | Ev::WaitErr { .. } | Ev::Sig { ok: false, .. } | Ev::Kill { ok: false, .. }))
			.count();
		let calls = f.log.iter().filter(|r| matches!(r.ev, Ev::User { tag: "errh", .. })).count();
		if faults != calls {
			f.push(
				format!("C07/error-handler-calls/{calls}-for-{faults}-faults"),
				format!("{faults} injected faults, error handler called {calls} times"),
			);
		}
	}
}

fn c10_end(f: &Facts, sc: &Sc) {
	// "each exactly once": a control that runs a second time (e.g. the continuation of a
	// graceful restart fired again by a timer that should have been disarmed) is visible as a
	// spawn attempt beyond the operations sent
	if let Some((attempts, ops)) = spawn_attempts_exceed_ops(f) {
		f.push(
			"C10/control-ran-again/more-spawn-attempts-than-spawning-operations".into(),
			format!("{attempts} spawn attempts (failed ones included) for {ops} operations that may spawn"),
		);
	}
	let dead_seen = hs(|h| h.dead_seen);
	// per-sender order, at most once
	let senders: BTreeSet<u8> = f.ops.iter().map(|o| o.sender).collect();
	let prio_of = |idx: usize| f.ops.iter().find(|o| o.idx == idx).map_or(Prio::Normal, |o| o.op.prio());
	for s in senders {
		let all_ran: Vec<usize> = f.markers.iter().filter(|(_, _, x, _)| *x == s).map(|(_, i, _, _)| *i).collect();
		for prio in [Prio::Normal, Prio::High, Prio::Urgent] {
			let ran: Vec<usize> = all_ran.iter().copied().filter(|i| prio_of(*i) == prio).collect();
			let mut sorted = ran.clone();
			sorted.sort_unstable();
			let mut dedup = sorted.clone();
			dedup.dedup();
			if dedup.len() != ran.len() {
				f.push("C10/control-ran-twice".into(), format!("sender {s}: {prio:?} markers ran {ran:?}"));
			} else if sorted != ran {
				f.push(format!("C10/same-priority-reordered/{prio:?}"), format!("sender {s}: {prio:?} markers sent in index order ran as {ran:?}"));
			}
		}
		if !dead_seen {
			let sent: Vec<usize> = f.ops.iter().filter(|o| o.sender == s && o.op.is_marker() && !o.sent_to_dead).map(|o| o.idx).collect();
			if sent.iter().any(|i| !all_ran.contains(i)) {
				f.push("C10/control-never-ran".into(), format!("sender {s}: sent markers {sent:?}, ran {all_ran:?}, job alive"));
			}
		}
	}
	// awaiting a ticket implies every earlier same-sender control has run
	let job_can_end = sc.script.iter().any(|(o, _)| o.ends_job()) || sc.drop_handle;
	if !job_can_end {
		for o in f.ops.iter().filter(|o| o.op.prio() == Prio::Normal) {
			let Some(pr) = f.resolved.get(&(o.idx, 0)) else { continue };
			for m in f.ops.iter().filter(|m| m.sender == o.sender && m.idx < o.idx && m.op.is_marker() && m.op.prio() == Prio::Normal) {
				let ran_before = f.markers.iter().any(|(pm, i, _, _)| *i == m.idx && pm < pr);
				if !ran_before {
					f.push(
						"C10/ticket-resolved-before-earlier-control-ran".into(),
						format!("ticket of op {} resolved at log {pr} before marker {} ran", o.idx, m.idx),
					);
				}
			}
		}
	}
	// priority at dequeue: a normal control must not run while an urgent one, or a high
	// one that would complete at once, is pending
	for (pm, idx, _, text) in &f.markers {
		let Some(p) = text.split("pending=[").nth(1) else { continue };
		let pend = p.trim_end_matches(']');
		if pend.is_empty() {
			continue;
		}
		let running = text.starts_with("cur=Running");
		let own = f.ops.iter().find(|o| o.idx == *idx).map_or(Prio::Normal, |o| o.op.prio());
		let own_rec = f.ops.iter().find(|o| o.idx == *idx);
		for item in pend.split(',') {
			let pidx: usize = item[1..].parse().unwrap_or(usize::MAX);
			let prec = f.ops.iter().find(|o| o.idx == pidx);
			let pop = prec.map(|o| o.op);
			// "pending when the job task looked at its queues": the job cannot have taken this
			// marker off its queue before the marker was sent, so a higher-priority control
			// sent earlier — or in the same breath, with no task polled in between — was
			// certainly queued at that look. One sent later, after a poll, may have arrived
			// while the marker was already taken and about to run (nothing makes taking a
			// control and running it one atomic step), which the property does not forbid.
			let certainly_queued = match (own_rec, prec) {
				(Some(x), Some(y)) => y.log_pos < x.log_pos || y.polls == x.polls,
				_ => true,
			};
			if !certainly_queued {
				continue;
			}
			if item.starts_with('U') && own < Prio::Urgent {
				f.push(
					format!("C10/{}-ran-while-urgent-pending", if own == Prio::High { "high" } else { "normal" }),
					format!("marker of op {idx} ran at log {pm} while urgent control {item} ({pop:?}) was pending"),
				);
			} else if item.starts_with('H') && own < Prio::High && (pop != Some(Op::ToWait) || !running) {
				f.push(
					"C10/normal-ran-while-high-pending".into(),
					format!("marker of op {idx} ran at log {pm} ({text}) while high-priority control {item} ({pop:?}) was pending"),
				);
			}
		}
	}
}

fn cls_of(s: &str) -> Option<crate::model::Cls> {
	use crate::model::Cls;
	if s.starts_with("Pending") {
		Some(Cls::Pending)
	} else if s.starts_with("Running") {
		Some(Cls::Running)
	} else if s.starts_with("Finished") {
		Some(Cls::Finished)
	} else {
		None
	}
}

/// C09: the observation log must be a trace of the JobModel.
fn c09_end(f: &Facts, sc: &Sc) {
	use crate::model::{Obs, Out, Tracker};
	let mut tr = Tracker::new(sc);
	let mut now = 0u64;
	let mut last_op = "none".to_string();
	let mut polls_at_last_send = 0u64;
	for (i, r) in f.log.iter().enumerate() {
		let mut obs: Vec<Obs> = vec![];
		if r.t > now {
			now = r.t;
			obs.push(Obs::Time { t: now });
		}
		match &r.ev {
			Ev::Spawn { id, env, .. } => {
				let hook = env.iter().find(|(k, _)| k == "VERIF_HOOK").and_then(|(_, v)| v.parse().ok());
				obs.push(Obs::Out(Out::Spawn { id: *id, hook }));
			}
			Ev::SpawnFail { .. } => obs.push(Obs::Out(Out::SpawnFail)),
			Ev::Sig { id, sig, ok } => obs.push(Obs::Out(Out::Sig { id: *id, sig: *sig, ok: *ok })),
			Ev::Kill { id, ok } => obs.push(Obs::Out(Out::Kill { id: *id, ok: *ok })),
			Ev::Reap { id, .. } => obs.push(Obs::Out(Out::Reap { id: *id })),
			Ev::Drop { id } => obs.push(Obs::Out(Out::Drop { id: *id })),
			Ev::WaitErr { .. } => return, // not modelled
			Ev::Exit { id, .. } => obs.push(Obs::Exited { id: *id }),
			Ev::User { tag, a, s, .. } => match *tag {
				"op" => {
					if let Some(o) = f.ops.iter().find(|o| o.log_pos == i) {
						last_op = format!("{:?}", o.op);
						// a control may have been taken off the queue, with none of its effects
						// visible yet, only if some task was polled since the previous send
						let polled = o.polls > polls_at_last_send;
						polls_at_last_send = o.polls;
						obs.push(Obs::Send { idx: o.idx, op: o.op, to_dead: o.sent_to_dead, polled });
					}
				}
				"marker" => {
					let cur = s.split("cur=").nth(1).and_then(cls_of);
					let prev = s.split("prev=").nth(1).and_then(cls_of);
					if let Some(cur) = cur {
						obs.push(Obs::Out(Out::Marker { idx: *a as usize, cur, prev }));
					}
				}
				"marker-end" => obs.push(Obs::Out(Out::MarkerEnd { idx: *a as usize })),
				"hook" => obs.push(Obs::Out(Out::Hook { n: *a as usize })),
				"errh" => obs.push(Obs::Out(Out::ErrH)),
				"drop-handle" => obs.push(Obs::Close),
				"quiescent" => {
					let resolved: BTreeSet<usize> = f.resolved.iter().filter(|((_, w), p)| *w == 0 && **p < i).map(|((idx, _), _)| *idx).collect();
					let sent: Vec<usize> = f.ops.iter().filter(|o| o.log_pos < i).map(|o| o.idx).collect();
					obs.push(Obs::Quiescent { resolved, sent });
				}
				_ => {}
			},
		}
		for o in obs {
			if let Err(why) = tr.step(&o) {
				let what = match &o {
					Obs::Out(out) => format!("unexpected-{}", out.kind()),
					Obs::Quiescent { .. } => "state-or-tickets-differ-at-quiescence".to_string(),
					Obs::Send { .. } => "send-not-accepted".to_string(),
					_ => "input-not-accepted".to_string(),
				};
				f.push(format!("C09/not-a-model-trace/{what}/after-{last_op}"), format!("log entry {i} ({}): {why}", r.render()));
				return;
			}
		}
	}
	hs(|h| h.model_steps += tr.steps);
}
