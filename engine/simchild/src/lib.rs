//! SimChild: a simulated OS process behind `process_wrap::tokio::TokioChildWrapper`,
//! installed through the supervisor's `cfg(watchexec_verif)` factory seam. Its exit is
//! an explorer event, its reaction to signals a scenario parameter, and every call made
//! on it is logged with the virtual time.

use std::{
	cell::RefCell,
	future::Future,
	io::{Error, ErrorKind, Result},
	os::unix::process::ExitStatusExt,
	pin::Pin,
	process::ExitStatus,
	sync::{Arc, Mutex},
	task::{Context, Poll, Waker},
};

use process_wrap::tokio::TokioChildWrapper;

#[derive(Clone, Copy, Debug, PartialEq, Eq)]
pub enum Reaction {
	/// the signal is ignored
	Ignore,
	/// the process exits as part of the signal delivery
	ExitNow,
	/// the process exits this many ticks after the first reacting signal
	After(u64),
}

#[derive(Clone, Copy, Debug, PartialEq, Eq)]
pub enum FaultOp {
	Signal,
	Kill,
	Wait,
}

#[derive(Clone, Debug)]
pub struct SimCfg {
	pub reaction: Reaction,
	/// signals that never trigger the reaction
	pub inert_signals: Vec<i32>,
	/// 1-based index of the spawn that fails
	pub spawn_fail_at: Option<usize>,
	/// 1-based index (over all children) of the call of this kind that fails
	pub op_fault: Option<(FaultOp, usize)>,
}

impl Default for SimCfg {
	fn default() -> Self {
		Self { reaction: Reaction::Ignore, inert_signals: vec![10, 12], spawn_fail_at: None, op_fault: None }
	}
}

#[derive(Clone, Debug, PartialEq, Eq)]
pub enum Ev {
	Spawn { id: usize, role: String, env: Vec<(String, String)>, cwd: Option<String> },
	SpawnFail { attempt: usize },
	Sig { id: usize, sig: i32, ok: bool },
	Kill { id: usize, ok: bool },
	WaitErr { id: usize },
	Reap { id: usize, code: i32 },
	Drop { id: usize },
	/// the process ended: cause is "self", "signal", "delayed", "kill", "drop"
	Exit { id: usize, cause: &'static str },
	/// harness-defined record
	User { tag: &'static str, a: i64, b: i64, s: String },
}

#[derive(Clone, Debug)]
pub struct Rec {
	pub t: u64,
	pub poll: u64,
	pub ev: Ev,
}

impl Rec {
	pub fn render(&self) -> String {
		let e = match &self.ev {
			Ev::Spawn { id, role, env, cwd } => {
				let mut s = format!("spawn#{id}");
				if !role.is_empty() {
					s.push_str(&format!("[{role}]"));
				}
				if !env.is_empty() {
					s.push_str(&format!(" env={env:?}"));
				}
				if let Some(c) = cwd {
					s.push_str(&format!(" cwd={c}"));
				}
				s
			}
			Ev::SpawnFail { attempt } => format!("spawn-fail@{attempt}"),
			Ev::Sig { id, sig, ok } => format!("sig#{id}:{sig}{}", if *ok { "" } else { "!err" }),
			Ev::Kill { id, ok } => format!("kill#{id}{}", if *ok { "" } else { "!err" }),
			Ev::WaitErr { id } => format!("wait#{id}!err"),
			Ev::Reap { id, code } => format!("reap#{id}={code}"),
			Ev::Drop { id } => format!("drop#{id}"),
			Ev::Exit { id, cause } => format!("exit#{id}({cause})"),
			Ev::User { tag, a, b, s } => format!("{tag} {a} {b} {s}"),
		};
		format!("t{} {e}", self.t)
	}
}

#[derive(Debug, Default)]
pub struct ChildSt {
	pub id: usize,
	pub role: String,
	pub exited: Option<i32>,
	pub reaped: bool,
	pub dropped: bool,
	pub waker: Option<Waker>,
	pub exit_at_tick: Option<u64>,
	pub spawned_at: u64,
}

#[derive(Default)]
pub struct World {
	pub cfg: SimCfg,
	pub log: Vec<Rec>,
	/// spawned and neither reaped nor dropped
	pub live: usize,
	pub spawned: usize,
	pub spawn_attempts: usize,
	/// (spawn id, ids of children live at that instant) for every spawn made while
	/// another child of the same role was live
	pub overlaps: Vec<(usize, Vec<usize>)>,
	pub children: Vec<Arc<Mutex<ChildSt>>>,
	pub n_signal: usize,
	pub n_kill: usize,
	pub n_wait: usize,
}

thread_local! {
	static WORLD: RefCell<World> = RefCell::new(World::default());
}

pub fn with<R>(f: impl FnOnce(&mut World) -> R) -> R {
	WORLD.with(|w| f(&mut w.borrow_mut()))
}

pub fn log(ev: Ev) {
	let t = dex::rt::now();
	let poll = dex::rt::polls();
	with(|w| w.log.push(Rec { t, poll, ev }));
}

pub fn note(tag: &'static str, a: i64, b: i64, s: impl Into<String>) {
	log(Ev::User { tag, a, b, s: s.into() });
}

pub fn rendered_log() -> Vec<String> {
	with(|w| w.log.iter().map(Rec::render).collect())
}

/// Reset the world and install the child factory for this thread.
pub fn install(cfg: SimCfg) {
	with(|w| {
		*w = World { cfg, ..Default::default() };
	});
	watchexec_supervisor::verif::set_factory(Some(Box::new(|command, spawnable| {
		let role = match &command.program {
			watchexec_supervisor::command::Program::Exec { prog, .. } => prog.to_string_lossy().to_string(),
			watchexec_supervisor::command::Program::Shell { command, .. } => command.clone(),
		};
		let std = spawnable.command().as_std();
		let env: Vec<(String, String)> = std
			.get_envs()
			.filter_map(|(k, v)| v.map(|v| (k.to_string_lossy().to_string(), v.to_string_lossy().to_string())))
			.filter(|(k, _)| k.starts_with("VERIF_") || k.starts_with("WATCHEXEC_"))
			.collect();
		let cwd = std.get_current_dir().map(|p| p.to_string_lossy().to_string());
		let (fail, id, st) = with(|w| {
			w.spawn_attempts += 1;
			if w.cfg.spawn_fail_at == Some(w.spawn_attempts) {
				return (true, 0, None);
			}
			let live_same: Vec<usize> = w
				.children
				.iter()
				.filter_map(|c| {
					let c = c.lock().unwrap();
					(c.role == role && !c.reaped && !c.dropped).then_some(c.id)
				})
				.collect();
			w.spawned += 1;
			let id = w.spawned;
			if !live_same.is_empty() {
				w.overlaps.push((id, live_same));
			}
			w.live += 1;
			let st = Arc::new(Mutex::new(ChildSt { id, role: role.clone(), spawned_at: dex::rt::now(), ..Default::default() }));
			w.children.push(st.clone());
			(false, id, Some(st))
		});
		if fail {
			let attempt = with(|w| w.spawn_attempts);
			log(Ev::SpawnFail { attempt });
			return Err(Error::new(ErrorKind::NotFound, "sim: spawn failed"));
		}
		log(Ev::Spawn { id, role, env, cwd });
		Ok(Box::new(SimChild(st.unwrap())) as Box<dyn TokioChildWrapper>)
	})));
}

pub fn uninstall() {
	watchexec_supervisor::verif::set_factory(None);
}

fn end(st: &Arc<Mutex<ChildSt>>, code: i32, cause: &'static str) -> bool {
	let mut s = st.lock().unwrap();
	if s.exited.is_some() {
		return false;
	}
	s.exited = Some(code);
	let id = s.id;
	let w = s.waker.take();
	drop(s);
	log(Ev::Exit { id, cause });
	if let Some(w) = w {
		w.wake();
	}
	true
}

/// Children that are running (not exited, not dropped), oldest first.
pub fn alive() -> Vec<Arc<Mutex<ChildSt>>> {
	with(|w| {
		w.children
			.iter()
			.filter(|c| {
				let c = c.lock().unwrap();
				c.exited.is_none() && !c.dropped
			})
			.cloned()
			.collect()
	})
}

/// Children that have exited but whose status has not been collected.
pub fn unreaped_exited() -> usize {
	with(|w| {
		w.children
			.iter()
			.filter(|c| {
				let c = c.lock().unwrap();
				c.exited.is_some() && !c.reaped && !c.dropped
			})
			.count()
	})
}

/// ENV action: the process ends by itself with status 0.
pub fn self_exit(st: &Arc<Mutex<ChildSt>>) {
	end(st, 0, "self");
}

/// Fire delayed exits that are due at the current virtual time. Returns how many fired.
pub fn fire_due() -> usize {
	let now = dex::rt::now();
	let due: Vec<_> = with(|w| {
		w.children
			.iter()
			.filter(|c| {
				let c = c.lock().unwrap();
				c.exited.is_none() && !c.dropped && c.exit_at_tick.map_or(false, |t| t <= now)
			})
			.cloned()
			.collect()
	});
	let mut n = 0;
	for c in due {
		if end(&c, 15 /* raw wait status: killed by SIGTERM */, "delayed") {
			n += 1;
		}
	}
	n
}

/// Whether some child has a delayed exit pending.
pub fn delayed_pending() -> bool {
	with(|w| {
		w.children.iter().any(|c| {
			let c = c.lock().unwrap();
			c.exited.is_none() && !c.dropped && c.exit_at_tick.is_some()
		})
	})
}

#[derive(Debug)]
pub struct SimChild(pub Arc<Mutex<ChildSt>>);

struct WaitFut<'a> {
	st: &'a Arc<Mutex<ChildSt>>,
	fail: bool,
}

impl Future for WaitFut<'_> {
	type Output = Result<ExitStatus>;
	fn poll(self: Pin<&mut Self>, cx: &mut Context<'_>) -> Poll<Self::Output> {
		let mut s = self.st.lock().unwrap();
		if self.fail {
			let id = s.id;
			drop(s);
			log(Ev::WaitErr { id });
			return Poll::Ready(Err(Error::new(ErrorKind::Other, "sim: wait failed")));
		}
		if let Some(code) = s.exited {
			if !s.reaped {
				s.reaped = true;
				let id = s.id;
				drop(s);
				with(|w| w.live -= 1);
				log(Ev::Reap { id, code });
			}
			Poll::Ready(Ok(ExitStatus::from_raw(code)))
		} else {
			s.waker = Some(cx.waker().clone());
			Poll::Pending
		}
	}
}

impl TokioChildWrapper for SimChild {
	fn inner(&self) -> &tokio::process::Child {
		unimplemented!("SimChild has no OS process")
	}
	fn inner_mut(&mut self) -> &mut tokio::process::Child {
		unimplemented!("SimChild has no OS process")
	}
	fn into_inner(self: Box<Self>) -> tokio::process::Child {
		unimplemented!("SimChild has no OS process")
	}
	fn id(&self) -> Option<u32> {
		Some(self.0.lock().unwrap().id as u32)
	}
	fn start_kill(&mut self) -> Result<()> {
		let id = self.0.lock().unwrap().id;
		let fail = with(|w| {
			w.n_kill += 1;
			w.cfg.op_fault == Some((FaultOp::Kill, w.n_kill))
		});
		log(Ev::Kill { id, ok: !fail });
		if fail {
			return Err(Error::new(ErrorKind::PermissionDenied, "sim: kill failed"));
		}
		end(&self.0, 9, "kill");
		Ok(())
	}
	fn try_wait(&mut self) -> Result<Option<ExitStatus>> {
		let mut s = self.0.lock().unwrap();
		if let Some(code) = s.exited {
			if !s.reaped {
				s.reaped = true;
				let id = s.id;
				drop(s);
				with(|w| w.live -= 1);
				log(Ev::Reap { id, code });
			}
			Ok(Some(ExitStatus::from_raw(code)))
		} else {
			Ok(None)
		}
	}
	fn wait(&mut self) -> Box<dyn Future<Output = Result<ExitStatus>> + Send + '_> {
		let fail = with(|w| {
			w.n_wait += 1;
			w.cfg.op_fault == Some((FaultOp::Wait, w.n_wait))
		});
		Box::new(WaitFut { st: &self.0, fail })
	}
	fn signal(&self, sig: i32) -> Result<()> {
		let id = self.0.lock().unwrap().id;
		let (fail, reaction, inert) = with(|w| {
			w.n_signal += 1;
			(w.cfg.op_fault == Some((FaultOp::Signal, w.n_signal)), w.cfg.reaction, w.cfg.inert_signals.contains(&sig))
		});
		log(Ev::Sig { id, sig, ok: !fail });
		if fail {
			return Err(Error::new(ErrorKind::PermissionDenied, "sim: signal failed"));
		}
		if sig == 9 {
			end(&self.0, 9, "signal");
			return Ok(());
		}
		if inert {
			return Ok(());
		}
		match reaction {
			Reaction::Ignore => {}
			Reaction::ExitNow => {
				end(&self.0, sig, "signal");
			}
			Reaction::After(n) => {
				let t = dex::rt::now();
				let mut s = self.0.lock().unwrap();
				if s.exit_at_tick.is_none() && s.exited.is_none() {
					s.exit_at_tick = Some(t + n);
				}
			}
		}
		Ok(())
	}
}

impl Drop for SimChild {
	fn drop(&mut self) {
		let mut s = self.0.lock().unwrap();
		s.dropped = true;
		let id = s.id;
		if !s.reaped {
			s.reaped = true;
			let was_running = s.exited.is_none();
			s.exited.get_or_insert(9);
			drop(s);
			with(|w| w.live -= 1);
			if was_running {
				log(Ev::Exit { id, cause: "drop" });
			}
			log(Ev::Drop { id });
		}
	}
}
