//! C08 — quit always terminates and leaves no supervised process behind.
//!
//! Library level: a whole `Watchexec` whose action handler is a script that creates jobs,
//! brings each into a state class, and requests a quit (abort or graceful) — in a later
//! action or in the very action that created the jobs. CLI level: the CLI's real action
//! handler is fed interrupt / terminate signal events.

use std::{
	cell::RefCell,
	sync::{Arc, Mutex},
};

use dex::{
	explore::{choose, Bounds, Exec, Kind, Point, Policy},
	orch::{Obs, Tier},
	rt,
};
use serde::{Deserialize, Serialize};
use simchild::{Ev, Reaction, SimCfg};
use watchexec::{
	command::{Command, Program},
	job::Job,
	Config, Watchexec,
};
use watchexec_events::{Event, Priority, Source, Tag};
use watchexec_signals::Signal;

use crate::c05;

#[derive(Clone, Copy, Debug, PartialEq, Eq, Hash, Serialize, Deserialize)]
pub enum JobClass {
	NeverStarted,
	Running,
	Finished,
	/// graceful try-restart in progress (grace timer armed) when the quit arrives
	MidGracefulRestart,
	Deleted,
	/// a clone of the handle is held by an outside task awaiting a ticket
	HeldOutside,
	/// stop / start / run controls are queued in the same action as the quit
	QueuedControls,
	/// created under a fixed id, started and deleted; once it has gone, a later action creates a
	/// job under the same id again (`get_or_create_job`), starts it and keeps a clone of the
	/// handle; the quit is requested by a third action
	Recreated,
}

pub const CLASSES: [JobClass; 8] = [
	JobClass::NeverStarted,
	JobClass::Running,
	JobClass::Finished,
	JobClass::MidGracefulRestart,
	JobClass::Deleted,
	JobClass::HeldOutside,
	JobClass::QueuedControls,
	JobClass::Recreated,
];

#[derive(Clone, Copy, Debug, PartialEq, Eq, Hash, Serialize, Deserialize)]
pub enum Quit {
	Abort,
	Graceful(u64),
}

#[derive(Clone, Copy, Debug, PartialEq, Eq, Hash, Serialize, Deserialize)]
pub enum CliSignal {
	Interrupt,
	Terminate,
	/// interrupt delivered in the same batch as a file change
	InterruptWithChange,
	/// `--map-signal INT:USR1`: an interrupt must NOT quit
	MappedInterrupt,
	/// terminate while INT is the mapped one: still quits
	TerminateWhileIntMapped,
}

#[derive(Clone, Debug, Serialize, Deserialize)]
pub enum Sc {
	Lib {
		jobs: Vec<JobClass>,
		quit: Quit,
		ignores: bool,
		same_action: bool,
		horizon: u64,
		/// same-action variant with an async action handler that awaits the start ticket before
		/// it asks to quit and lets its handle go: the command is running when the quit arrives
		#[serde(default)]
		await_start: bool,
		/// the first forced kill fails (the process survives it)
		#[serde(default)]
		kill_fault: bool,
	},
	Cli { signal: CliSignal, stop_signal_int: bool, stop_timeout: u64, ignores: bool, horizon: u64 },
}

#[derive(Default)]
struct Plan {
	step: usize,
	jobs: Vec<JobClass>,
	quit: Option<Quit>,
	same_action: bool,
	/// handles the scenario itself needs later (queued controls, graceful restart, outside
	/// holder); every other job's handle is let go, as an application normally would
	handles: Vec<Option<Job>>,
	quit_at: Option<(u64, usize)>,
	restart_armed_at: Option<u64>,
	/// fixed ids of the `Recreated` jobs
	ids: Vec<Option<watchexec::Id>>,
}

thread_local! {
	static PLAN: RefCell<Plan> = RefCell::new(Plan::default());
	static VIOL: RefCell<Vec<(String, String)>> = const { RefCell::new(Vec::new()) };
	static QC: std::cell::Cell<u64> = const { std::cell::Cell::new(0) };
}

fn push(key: String, detail: String) {
	VIOL.with(|v| {
		let mut v = v.borrow_mut();
		if !v.iter().any(|(k, _)| *k == key) {
			v.push((key, detail));
		}
	});
}

fn cmd(i: usize) -> Arc<Command> {
	Arc::new(Command { program: Program::Exec { prog: format!("sim{}", (b'A' + i as u8) as char).into(), args: vec![] }, options: Default::default() })
}

const RESTART_GRACE: u64 = 2;

pub fn run(sc: &Sc, bounds: Bounds, prefix: &[Point]) -> Result<Exec<Obs>, String> {
	VIOL.with(|v| v.borrow_mut().clear());
	QC.with(|q| q.set(0));
	PLAN.with(|p| *p.borrow_mut() = Plan::default());
	let ignores = match sc {
		Sc::Lib { ignores, .. } | Sc::Cli { ignores, .. } => *ignores,
	};
	let kill_fault = matches!(sc, Sc::Lib { kill_fault: true, .. });
	simchild::install(SimCfg { reaction: if ignores { Reaction::Ignore } else { Reaction::ExitNow }, inert_signals: vec![10, 12], spawn_fail_at: None, op_fault: kill_fault.then_some((simchild::FaultOp::Kill, 1)) });
	fakewatcher::install();
	let sc2 = sc.clone();
	let cli_args = match sc {
		Sc::Cli { .. } => Some(c05::args_for(cli_argv(sc))?),
		Sc::Lib { .. } => None,
	};
	let res = rt::run_one(bounds, prefix, true, move || async move {
		rt::set_select_filter(Some(Box::new(c05::select_matters)));
		match &sc2 {
			Sc::Lib { .. } => lib_body(&sc2).await,
			Sc::Cli { .. } => cli_body(&sc2, cli_args.unwrap()).await,
		}
	});
	simchild::uninstall();
	fakewatcher::uninstall();
	PLAN.with(|p| *p.borrow_mut() = Plan::default());
	match res {
		Err(rt::RunError::Panic(m)) => Err(format!("harness panic: {m}")),
		Ok(ex) => match ex.out {
			Ok(o) => Ok(Exec { points: ex.points, divergence: ex.divergence, out: o }),
			Err(m) => Err(m),
		},
	}
}

fn cli_argv(sc: &Sc) -> Vec<String> {
	let Sc::Cli { signal, stop_signal_int, stop_timeout, .. } = sc else { unreachable!() };
	let dir = c05::scratch_dir();
	let mut v: Vec<String> = vec!["watchexec".into(), "-q".into(), "--emit-events-to".into(), "none".into(), "-n".into(), "--debounce".into(), "0ms".into()];
	v.extend(["--project-origin".into(), dir.clone(), "-w".into(), dir]);
	if *stop_signal_int {
		v.extend(["--stop-signal".into(), "INT".into()]);
	}
	v.extend(["--stop-timeout".into(), format!("{}ms", stop_timeout * 10)]);
	if matches!(signal, CliSignal::MappedInterrupt | CliSignal::TerminateWhileIntMapped) {
		v.extend(["--map-signal".into(), "INT:USR1".into()]);
	}
	v.extend(["--".into(), "sim".into()]);
	v
}

/// The scripted action handler of the library-level scenario.
fn scripted_action(config: &Config, await_start: bool) {
	if await_start {
		config.on_action_async(move |mut a| {
			Box::new(async move {
				let (step, quit) = PLAN.with(|p| {
					let mut p = p.borrow_mut();
					let s = p.step;
					p.step += 1;
					(s, p.quit)
				});
				simchild::note("action-step", step as i64, 0, "");
				if step == 0 {
					let (_, job) = a.create_job(cmd(0));
					job.start().await;
					drop(job);
					PLAN.with(|p| p.borrow_mut().handles = vec![None]);
					match quit {
						Some(Quit::Abort) => a.quit(),
						Some(Quit::Graceful(g)) => a.quit_gracefully(Signal::Terminate, rt::TICK * g as u32),
						None => {}
					}
					let pos = simchild::with(|w| w.log.len());
					simchild::note("quit-requested", 0, 0, format!("{quit:?}"));
					PLAN.with(|p| p.borrow_mut().quit_at = Some((rt::now(), pos)));
				}
				a
			})
		});
		return;
	}
	config.on_action(move |mut a| {
		let (step, jobs, quit, same) = PLAN.with(|p| {
			let mut p = p.borrow_mut();
			let s = p.step;
			p.step += 1;
			(s, p.jobs.clone(), p.quit, p.same_action)
		});
		simchild::note("action-step", step as i64, 0, "");
		let do_quit = |a: &mut watchexec::action::ActionHandler| {
			// controls queued in the same action as the quit
			let handles: Vec<Option<Job>> = PLAN.with(|p| p.borrow().handles.clone());
			for (i, c) in jobs.iter().enumerate() {
				if *c == JobClass::QueuedControls {
					if let Some(Some(j)) = handles.get(i) {
						j.stop();
						j.start();
						j.run(move |_| simchild::note("queued-marker", i as i64, 0, ""));
					}
				}
			}
			match quit {
				Some(Quit::Abort) => a.quit(),
				Some(Quit::Graceful(g)) => a.quit_gracefully(Signal::Terminate, rt::TICK * g as u32),
				None => {}
			}
			let pos = simchild::with(|w| w.log.len());
			simchild::note("quit-requested", 0, 0, format!("{quit:?}"));
			PLAN.with(|p| p.borrow_mut().quit_at = Some((rt::now(), pos)));
		};
		match step {
			0 => {
				let mut handles = vec![];
				let mut ids = vec![];
				for (i, c) in jobs.iter().enumerate() {
					let id = watchexec::Id::default();
					ids.push((*c == JobClass::Recreated).then_some(id));
					let job = if *c == JobClass::Recreated { a.get_or_create_job(id, || cmd(i)) } else { a.create_job(cmd(i)).1 };
					match c {
						JobClass::NeverStarted => {}
						JobClass::Deleted | JobClass::Recreated => {
							job.start();
							job.delete();
						}
						_ => {
							job.start();
						}
					}
					let keep = matches!(c, JobClass::QueuedControls | JobClass::MidGracefulRestart | JobClass::HeldOutside);
					handles.push(keep.then_some(job));
				}
				PLAN.with(|p| {
					let mut p = p.borrow_mut();
					p.handles = handles;
					p.ids = ids;
				});
				if same {
					do_quit(&mut a);
				}
			}
			1 if jobs.contains(&JobClass::Recreated) && !same => {
				// the deleted job has gone by now: create it again under the same id
				let ids = PLAN.with(|p| p.borrow().ids.clone());
				for (i, c) in jobs.iter().enumerate() {
					if *c == JobClass::Recreated {
						let job = a.get_or_create_job(ids[i].expect("id"), || cmd(i));
						job.start();
						PLAN.with(|p| p.borrow_mut().handles[i] = Some(job));
					}
				}
			}
			1 | 2 => {
				// arm the graceful restart timers, then (in this same action) quit
				let handles: Vec<Option<Job>> = PLAN.with(|p| p.borrow().handles.clone());
				for (i, c) in jobs.iter().enumerate() {
					if *c == JobClass::MidGracefulRestart {
						handles[i].as_ref().expect("kept").try_restart_with_signal(Signal::Hangup, rt::TICK * RESTART_GRACE as u32);
						PLAN.with(|p| p.borrow_mut().restart_armed_at = Some(rt::now()));
					}
				}
				do_quit(&mut a);
			}
			_ => {}
		}
		a
	});
}

#[derive(Clone, Copy, PartialEq, Eq, Debug)]
enum Act {
	Trigger,
	Exit,
	Tick,
}

async fn lib_body(sc: &Sc) -> Result<Obs, String> {
	let Sc::Lib { jobs, quit, same_action, horizon, await_start, .. } = sc else { unreachable!() };
	PLAN.with(|p| {
		let mut p = p.borrow_mut();
		p.jobs = jobs.clone();
		p.quit = Some(*quit);
		p.same_action = *same_action;
	});
	let config = Config::default();
	config.throttle(std::time::Duration::ZERO);
	scripted_action(&config, *await_start);
	config.on_error(|e| simchild::note("runtime-error", 0, 0, e.error.to_string()));
	let wx = Watchexec::with_config(config).map_err(|e| format!("with_config: {e}"))?;
	wx.send_event(Event::default(), Priority::Urgent).await.map_err(|e| format!("send: {e}"))?;
	let mut main = wx.main();
	// phase 1: the set-up action, then arrange the state classes deterministically
	rt::settle_quiet().await.map_err(|_| "livelock in set-up".to_string())?;
	let waiters: Arc<Mutex<Vec<usize>>> = Arc::default();
	if !same_action {
		let handles: Vec<Option<Job>> = PLAN.with(|p| p.borrow().handles.clone());
		for (i, c) in jobs.iter().enumerate() {
			match c {
				JobClass::Finished => {
					let role = format!("sim{}", (b'A' + i as u8) as char);
					if let Some(ch) = simchild::alive().into_iter().find(|c| c.lock().unwrap().role == role) {
						simchild::self_exit(&ch);
					}
				}
				JobClass::HeldOutside => {
					let j = handles[i].clone().expect("kept");
					let w = waiters.clone();
					tokio::spawn(async move {
						j.to_wait().await;
						simchild::note("outside-waiter-done", i as i64, 0, "");
						w.lock().unwrap().push(i);
						drop(j);
					});
				}
				_ => {}
			}
		}
		drop(handles);
		rt::settle_quiet().await.map_err(|_| "livelock in set-up".to_string())?;
	}
	simchild::note("setup-done", 0, 0, "");
	let mut triggers_left = if *same_action { 0 } else if jobs.contains(&JobClass::Recreated) { 2 } else { 1 };
	let mut exits = 0;
	let mut livelock = false;
	let mut main_result: Option<String> = None;
	loop {
		let quiescent = match rt::settle(true, || {}).await {
			Ok(q) => q,
			Err(_) => {
				livelock = true;
				break;
			}
		};
		if main_result.is_none() && main.is_finished() {
			main_result = Some(match (&mut main).await {
				Ok(Ok(())) => "Ok".into(),
				Ok(Err(e)) => format!("Err({e})"),
				Err(e) => format!("JoinError({e})"),
			});
			simchild::note("main-ended", 0, 0, main_result.clone().unwrap());
		}
		if quiescent {
			simchild::note("quiescent", 0, 0, "");
			QC.with(|q| q.set(q.get() + 1));
			lib_quiescent(sc, main_result.is_some());
		}
		if main_result.is_some() && quiescent {
			break;
		}
		let now = rt::now();
		let alive = simchild::alive();
		let mut menu = vec![];
		if triggers_left > 0 {
			menu.push(Act::Trigger);
		}
		if !alive.is_empty() && exits < 2 {
			menu.push(Act::Exit);
		}
		if now < *horizon {
			menu.push(Act::Tick);
		}
		if menu.is_empty() {
			if !quiescent {
				continue;
			}
			break;
		}
		match menu[choose(Kind::Env, menu.len())] {
			Act::Trigger => {
				triggers_left -= 1;
				simchild::note("trigger-quit-action", 0, 0, "");
				if wx.send_event(Event::default(), Priority::Urgent).await.is_err() {
					simchild::note("send-failed", 0, 0, "");
				}
			}
			Act::Exit => {
				exits += 1;
				// the oldest running child of any job
				simchild::self_exit(&alive[0]);
			}
			Act::Tick => rt::tick().await,
		}
	}
	// drain: time passes well beyond every deadline
	if !livelock && main_result.is_none() {
		for _ in 0..(horizon + 8) {
			rt::tick().await;
			if rt::settle_quiet().await.is_err() {
				livelock = true;
				break;
			}
		}
		if main.is_finished() {
			main_result = Some(match (&mut main).await {
				Ok(Ok(())) => "Ok".into(),
				Ok(Err(e)) => format!("Err({e})"),
				Err(e) => format!("JoinError({e})"),
			});
			simchild::note("main-ended", 0, 0, main_result.clone().unwrap());
		}
	}
	if !livelock {
		let _ = rt::settle_quiet().await;
	}
	finish(sc, livelock, main_result, &mut main)
}

fn finish(sc: &Sc, livelock: bool, main_result: Option<String>, main: &mut tokio::task::JoinHandle<Result<(), watchexec::error::CriticalError>>) -> Result<Obs, String> {
	for p in rt::take_panics() {
		if p.contains("/repo/") {
			push("C08/subject-panicked".into(), p);
		}
	}
	if livelock {
		push("C08/livelock".into(), "tasks kept waking each other for 20000 polls".into());
	} else {
		at_end(sc, main_result);
	}
	main.abort();
	let log = canonical_log();
	let nontrivial = simchild::with(|w| w.spawned > 0);
	let violations = VIOL.with(|v| std::mem::take(&mut *v.borrow_mut()));
	Ok(Obs { log, violations, nontrivial, counters: vec![("quiescent_instants_checked", QC.with(std::cell::Cell::get))] })
}

/// The worker keeps its jobs in a randomly seeded HashMap: with two jobs the order in
/// which they are told to stop varies. Logs are made canonical by listing harness
/// records first and then each job's child records separately.
fn canonical_log() -> Vec<String> {
	let (log, roles): (Vec<simchild::Rec>, Vec<(usize, String)>) =
		simchild::with(|w| (w.log.clone(), w.children.iter().map(|c| { let c = c.lock().unwrap(); (c.id, c.role.clone()) }).collect()));
	let role_of = |id: usize| roles.iter().find(|(i, _)| *i == id).map_or("?".to_string(), |(_, r)| r.clone());
	let multi = roles.iter().map(|(_, r)| r.clone()).collect::<std::collections::BTreeSet<_>>().len() > 1;
	if !multi {
		return log.iter().map(simchild::Rec::render).collect();
	}
	let mut global = vec![];
	let mut per: std::collections::BTreeMap<String, Vec<String>> = Default::default();
	let mut first_id: std::collections::BTreeMap<String, usize> = Default::default();
	for r in &log {
		let id = match &r.ev {
			Ev::Spawn { id, .. } | Ev::Sig { id, .. } | Ev::Kill { id, .. } | Ev::WaitErr { id } | Ev::Reap { id, .. } | Ev::Drop { id } | Ev::Exit { id, .. } => Some(*id),
			_ => None,
		};
		if let Ev::User { tag: "outside-waiter-done" | "queued-marker", a, .. } = &r.ev {
			let role = format!("sim{}", (b'A' + *a as u8) as char);
			per.entry(role).or_default().push(r.render());
			continue;
		}
		match id {
			None => {
				if !matches!(r.ev, Ev::User { tag: "quiescent", .. }) {
					global.push(r.render());
				}
			}
			Some(id) => {
				let role = role_of(id);
				let base = *first_id.entry(role.clone()).or_insert(id);
				// child numbers relative to the job's first child
				let line = r.render().replace(&format!("#{id}"), &format!("#{role}.{}", id - base));
				per.entry(role).or_default().push(line);
			}
		}
	}
	for (role, lines) in per {
		global.push(format!("-- {role} --"));
		global.extend(lines);
	}
	global
}

fn lib_quiescent(sc: &Sc, main_done: bool) {
	let Sc::Lib { quit, jobs, .. } = sc else { return };
	let Some((tq, _)) = PLAN.with(|p| p.borrow().quit_at) else { return };
	let now = rt::now();
	if main_done {
		return;
	}
	match quit {
		Quit::Abort => push(
			format!("C08/abort-did-not-end-main/{}", class_key(jobs)),
			format!("quit (abort) requested at t{tq}; the main task is still running at quiescent t{now}"),
		),
		Quit::Graceful(g) => {
			let armed = PLAN.with(|p| p.borrow().restart_armed_at);
			let remaining = armed.map_or(0, |t| (t + RESTART_GRACE).saturating_sub(tq));
			// "plus a small margin": one tick, plus one tick for each grace timer involved (an
			// implementation may add a safety margin to each of them)
			let deadline = tq + remaining + g + 2 + u64::from(armed.is_some());
			if now > deadline {
				push(
					format!("C08/graceful-quit-past-deadline/{}", class_key(jobs)),
					format!("graceful quit ({g} ticks) requested at t{tq}, pending restart grace {remaining}: main still running at quiescent t{now} > t{deadline}"),
				);
			}
		}
	}
}

fn class_key(jobs: &[JobClass]) -> String {
	jobs.iter().map(|j| format!("{j:?}")).collect::<Vec<_>>().join("+")
}

fn at_end(sc: &Sc, main_result: Option<String>) {
	let (log, live) = simchild::with(|w| (w.log.clone(), w.live));
	let key = match sc {
		Sc::Lib { jobs, .. } => class_key(jobs),
		Sc::Cli { signal, .. } => format!("{signal:?}"),
	};
	let quit_requested = PLAN.with(|p| p.borrow().quit_at);
	let expect_quit = match sc {
		Sc::Lib { .. } => quit_requested.is_some(),
		Sc::Cli { signal, .. } => !matches!(signal, CliSignal::MappedInterrupt),
	};
	match (&main_result, expect_quit) {
		(None, true) => push(format!("C08/main-never-ended/{key}"), "a quit was requested but the main task never finished, even long after every deadline".into()),
		(Some(r), true) if r != "Ok" => push(format!("C08/main-ended-with-error/{key}"), format!("main task result: {r}")),
		(Some(r), false) => push(format!("C08/quit-without-request/{key}"), format!("the main task ended ({r}) although no quit was requested")),
		_ => {}
	}
	if main_result.is_some() {
		if live != 0 {
			push(format!("C08/process-left-behind/{key}"), format!("{live} supervised processes neither reaped nor dropped after the main task ended"));
		}
		// graceful quit: every process still running is ended through the stop sequence
		// (signal, then kill + wait at expiry). A handle merely dropped is SIGKILLed as a
		// single process, its status never collected, and the other members of its process
		// group are not touched at all — that is how "the rest of the group survives"
		if let Sc::Lib { quit: Quit::Graceful(_), jobs, .. } = sc {
			for (i, r) in log.iter().enumerate() {
				if let Ev::Drop { id } = &r.ev {
					let ended = log[..i].iter().any(|x| match &x.ev {
						Ev::Exit { id: c, cause } => c == id && *cause != "drop",
						Ev::Reap { id: c, .. } => c == id,
						_ => false,
					});
					let outside = jobs.iter().any(|j| matches!(j, JobClass::HeldOutside));
					// (after a kill that failed, letting the handle go is all that is left)
					let kill_failed = log[..i].iter().any(|x| matches!(&x.ev, Ev::Kill { id: c, ok: false } if c == id));
					if !ended && !outside && !kill_failed {
						push(format!("C08/graceful-quit-dropped-a-running-process/{key}"), format!("drop#{id} at log {i}: the process was neither over nor stopped"));
					}
				}
			}
		}
		if let (Sc::Lib { jobs, same_action, .. }, Some((_, qpos))) = (sc, quit_requested) {
			// a start queued in the very action that asks to quit is a pending control and still runs
			let may_spawn = *same_action || jobs.iter().any(|j| matches!(j, JobClass::MidGracefulRestart | JobClass::QueuedControls));
			let late = log.iter().enumerate().filter(|(i, r)| *i > qpos && matches!(r.ev, Ev::Spawn { .. })).count();
			if late > 0 && !may_spawn {
				push(format!("C08/spawn-after-quit/{key}"), format!("{late} processes were started after the quit was requested"));
			}
		}
	}
}

// ---------------------------------------------------------------------------------
// CLI level

async fn cli_body(sc: &Sc, args: watchexec_cli::args::Args) -> Result<Obs, String> {
	let Sc::Cli { signal, stop_signal_int, stop_timeout, horizon, .. } = sc else { unreachable!() };
	let state = watchexec_cli::verif::new_state(&args).await.map_err(|e| format!("state: {e}"))?;
	let config = c05::cli_config(&args, &state)?;
	let wx = Watchexec::with_config(config).map_err(|e| format!("with_config: {e}"))?;
	wx.send_event(Event::default(), Priority::Urgent).await.map_err(|e| format!("send: {e}"))?;
	let mut main = wx.main();
	rt::settle_quiet().await.map_err(|_| "livelock at start-up".to_string())?;
	simchild::note("setup-done", 0, 0, "");
	let mut sent = false;
	let mut exits = 0;
	let mut livelock = false;
	let mut main_result: Option<String> = None;
	let mut tq: Option<u64> = None;
	loop {
		let quiescent = match rt::settle(true, || {}).await {
			Ok(q) => q,
			Err(_) => {
				livelock = true;
				break;
			}
		};
		if main_result.is_none() && main.is_finished() {
			main_result = Some(match (&mut main).await {
				Ok(Ok(())) => "Ok".into(),
				Ok(Err(e)) => format!("Err({e})"),
				Err(e) => format!("JoinError({e})"),
			});
			simchild::note("main-ended", 0, 0, main_result.clone().unwrap());
		}
		if quiescent {
			simchild::note("quiescent", 0, 0, "");
			QC.with(|q| q.set(q.get() + 1));
			if let (Some(t), None) = (tq, &main_result) {
				let now = rt::now();
				if !matches!(signal, CliSignal::MappedInterrupt) && now > t + stop_timeout + 1 {
					push(
						format!("C08/cli-shutdown-past-deadline/{signal:?}"),
						format!("signal event sent at t{t}, --stop-timeout {stop_timeout} ticks: main still running at quiescent t{now}"),
					);
				}
			}
		}
		if main_result.is_some() && quiescent {
			break;
		}
		let now = rt::now();
		let alive = simchild::alive();
		let mut menu = vec![];
		if !sent {
			menu.push(Act::Trigger);
		}
		if !alive.is_empty() && exits < 1 {
			menu.push(Act::Exit);
		}
		if now < *horizon {
			menu.push(Act::Tick);
		}
		if menu.is_empty() {
			if !quiescent {
				continue;
			}
			break;
		}
		match menu[choose(Kind::Env, menu.len())] {
			Act::Trigger => {
				sent = true;
				tq = Some(now);
				let pos = simchild::with(|w| w.log.len());
				PLAN.with(|p| p.borrow_mut().quit_at = Some((now, pos)));
				let sig = match signal {
					CliSignal::Terminate | CliSignal::TerminateWhileIntMapped => Signal::Terminate,
					_ => Signal::Interrupt,
				};
				simchild::note("signal-event", 0, 0, format!("{sig:?}"));
				let ev = Event {
					tags: vec![Tag::Source(if sig == Signal::Interrupt { Source::Keyboard } else { Source::Os }), Tag::Signal(sig)],
					metadata: Default::default(),
				};
				if matches!(signal, CliSignal::InterruptWithChange) {
					// same batch: the change first at normal priority, then the urgent signal
					// flushes the window
					let _ = wx.send_event(c05::change_event(1), Priority::Normal).await;
				}
				if wx.send_event(ev, Priority::Urgent).await.is_err() {
					simchild::note("send-failed", 0, 0, "");
				}
			}
			Act::Exit => {
				exits += 1;
				simchild::self_exit(&alive[0]);
			}
			Act::Tick => rt::tick().await,
		}
	}
	if !livelock && main_result.is_none() {
		for _ in 0..(horizon + 6) {
			rt::tick().await;
			if rt::settle_quiet().await.is_err() {
				livelock = true;
				break;
			}
		}
		if main.is_finished() {
			main_result = Some(match (&mut main).await {
				Ok(Ok(())) => "Ok".into(),
				Ok(Err(e)) => format!("Err({e})"),
				Err(e) => format!("JoinError({e})"),
			});
			simchild::note("main-ended", 0, 0, main_result.clone().unwrap());
		}
	}
	// the shutdown must be the graceful one with the configured stop signal
	if !livelock && !matches!(signal, CliSignal::MappedInterrupt) {
		let (log, qpos) = (simchild::with(|w| w.log.clone()), PLAN.with(|p| p.borrow().quit_at.map_or(0, |q| q.1)));
		let want = if *stop_signal_int { 2 } else { 15 };
		let running_at_quit = log[..qpos].iter().fold(None, |cur, r| match &r.ev {
			Ev::Spawn { id, .. } => Some(*id),
			Ev::Exit { id, .. } | Ev::Reap { id, .. } if cur == Some(*id) => None,
			_ => cur,
		});
		if let Some(child) = running_at_quit {
			let sigs: Vec<i32> = log[qpos..].iter().filter_map(|r| if let Ev::Sig { id, sig, .. } = &r.ev { (*id == child).then_some(*sig) } else { None }).collect();
			let exited_by_itself = log[qpos..].iter().any(|r| matches!(&r.ev, Ev::Exit { id, cause: "self" } if *id == child));
			if sigs.first() != Some(&want) && !exited_by_itself {
				push(
					format!("C08/cli-shutdown-wrong-signal/{signal:?}"),
					format!("running command #{child} received signals {sigs:?} after the {signal:?} event; expected the stop signal {want} first"),
				);
			}
			let kill_t = log[qpos..].iter().find_map(|r| if let Ev::Kill { id, .. } = &r.ev { (*id == child).then_some(r.t) } else { None });
			if let (Some(kt), Some(t0)) = (kill_t, tq) {
				if kt < t0 + stop_timeout {
					push(format!("C08/cli-shutdown-killed-before-stop-timeout/{signal:?}"), format!("kill at t{kt}, signal event at t{t0}, --stop-timeout {stop_timeout} ticks"));
				}
			}
		}
	}
	finish(sc, livelock, main_result, &mut main)
}

fn both(k: usize) -> Vec<Bounds> {
	if k == 0 {
		vec![Bounds::k(0, Policy::Fifo)]
	} else {
		vec![Bounds::k(k, Policy::Fifo), Bounds::k(k, Policy::Lifo)]
	}
}

pub fn scenarios(tier: Tier) -> Vec<(Sc, Vec<Bounds>)> {
	let mut out = vec![];
	let quits = [Quit::Abort, Quit::Graceful(0), Quit::Graceful(2)];
	// one job: every class x quit x reaction x (same action | later action), schedule-sensitive
	for c in CLASSES {
		for q in quits {
			for ignores in [false, true] {
				for same in [false, true] {
					if same && matches!(c, JobClass::Finished | JobClass::MidGracefulRestart | JobClass::HeldOutside | JobClass::Recreated) {
						continue; // these classes need time to pass between creation and quit
					}
					let g = if let Quit::Graceful(g) = q { g } else { 0 };
					let sc = Sc::Lib { jobs: vec![c], quit: q, ignores, same_action: same, horizon: RESTART_GRACE + g + 4, await_start: false, kill_fault: false };
					let passes = match tier {
						Tier::Quick => [both(0), both(1)].concat(),
						Tier::Thorough => [both(0), both(1), both(2)].concat(),
					};
					out.push((sc, passes));
				}
			}
		}
	}
	// created, started (awaited) and quit in one invocation of an async action handler, no
	// handle kept anywhere
	for q in quits {
		for ignores in [false, true] {
			let g = if let Quit::Graceful(g) = q { g } else { 0 };
			let sc = Sc::Lib { jobs: vec![JobClass::Running], quit: q, ignores, same_action: true, horizon: RESTART_GRACE + g + 4, await_start: true, kill_fault: false };
			out.push((sc, [both(0), both(1)].concat()));
		}
	}
	// the forced kill at the end of the grace period fails once: the quit still ends (the job is
	// deleted, its process goes with the handle)
	for q in quits {
		if let Quit::Graceful(g) = q {
			for c in [JobClass::Running, JobClass::MidGracefulRestart] {
				let sc = Sc::Lib { jobs: vec![c], quit: q, ignores: true, same_action: false, horizon: RESTART_GRACE + g + 6, await_start: false, kill_fault: true };
				out.push((sc, both(0)));
			}
		}
	}
	// two jobs: every pair of classes, default schedule only (the worker's HashMap order is
	// not ownable; the oracle is symmetric in the jobs and logs are canonicalised per job)
	for a in CLASSES {
		for b in CLASSES {
			for q in quits {
				let ignore_set: &[bool] = if tier == Tier::Thorough { &[false, true] } else { &[true] };
				for ignores in ignore_set {
					let g = if let Quit::Graceful(g) = q { g } else { 0 };
					out.push((Sc::Lib { jobs: vec![a, b], quit: q, ignores: *ignores, same_action: false, horizon: RESTART_GRACE + g + 4, await_start: false, kill_fault: false }, both(0)));
				}
			}
		}
	}
	// CLI: interrupt / terminate events on the real action handler
	for signal in [CliSignal::Interrupt, CliSignal::Terminate, CliSignal::InterruptWithChange, CliSignal::MappedInterrupt, CliSignal::TerminateWhileIntMapped] {
		for int in [false, true] {
			for st in [0u64, 2] {
				for ignores in [false, true] {
					let sc = Sc::Cli { signal, stop_signal_int: int, stop_timeout: st, ignores, horizon: st + 2 };
					let passes = match tier {
						Tier::Quick => [both(0), both(1)].concat(),
						Tier::Thorough => [both(0), both(1), both(2)].concat(),
					};
					out.push((sc, passes));
				}
			}
		}
	}
	out
}
