//! C12 — explicit CLI filters are honoured under every mix of ignore-discovery flags
//! (engine ENUM): all 64 combinations of the six ignore-source flags x each explicit
//! filtering option alone, none, and all together, through the CLI's real argument
//! normalisation and `WatchexecFilterer::new`, probed with one event per source.

use std::{
	collections::HashSet,
	hash::{Hash, Hasher},
	path::{Path, PathBuf},
	time::Instant,
};

use dex::orch::{self, Report, Tier, ViolationRec};
use serde_json::{json, Map, Value};
use watchexec::filter::Filterer;
use watchexec_events::{
	filekind::{CreateKind, DataChange, FileEventKind, ModifyKind},
	Event, FileType, Priority, Source, Tag,
};

const FLAGS: [&str; 6] = ["--no-vcs-ignore", "--no-project-ignore", "--no-global-ignore", "--no-default-ignore", "--no-discover-ignore", "--ignore-nothing"];

/// (source name, probe file, flags that remove exactly this source — from the flags' help text;
/// --ignore-nothing = --no-discover-ignore + --no-default-ignore, --no-discover-ignore =
/// --no-global-ignore + --no-vcs-ignore + --no-project-ignore)
const SOURCES: [(&str, &str, &[&str]); 5] = [
	("project-vcs-ignore", "vcs-local.txt", &["--no-vcs-ignore", "--no-project-ignore", "--no-discover-ignore", "--ignore-nothing"]),
	("project-generic-ignore", "generic-local.txt", &["--no-project-ignore", "--no-discover-ignore", "--ignore-nothing"]),
	("global-vcs-ignore", "vcs-global.txt", &["--no-vcs-ignore", "--no-global-ignore", "--no-discover-ignore", "--ignore-nothing"]),
	("global-app-ignore", "app-global.txt", &["--no-global-ignore", "--no-discover-ignore", "--ignore-nothing"]),
	("built-in-defaults", "mod.pyc", &["--no-default-ignore", "--ignore-nothing"]),
];

#[derive(Clone, Copy, Debug, PartialEq, Eq, Hash)]
enum Opt {
	Ignore,
	IgnoreFile,
	Filter,
	FilterFile,
	Exts,
	FsEvents,
}

const OPTS: [Opt; 6] = [Opt::Ignore, Opt::IgnoreFile, Opt::Filter, Opt::FilterFile, Opt::Exts, Opt::FsEvents];

struct Fixture {
	root: PathBuf,
	proj: PathBuf,
}

fn write(p: &Path, s: &str) {
	if let Some(d) = p.parent() {
		std::fs::create_dir_all(d).expect("mkdir");
	}
	std::fs::write(p, s).expect("write fixture");
}

fn build_fixture() -> Fixture {
	let root = PathBuf::from(format!("/dev/shm/verif-c12-{}", std::process::id()));
	let _ = std::fs::remove_dir_all(&root);
	let proj = root.join("proj");
	std::fs::create_dir_all(proj.join(".git")).expect("mkdir");
	write(&proj.join(".git/HEAD"), "ref: refs/heads/main\n");
	write(&proj.join(".gitignore"), "vcs-local.txt\n");
	// three of the files end without a line terminator (legal, and what concatenating
	// implementations trip over)
	write(&proj.join(".ignore"), "generic-local.txt");
	write(&root.join("xdg/git/ignore"), "vcs-global.txt\n");
	write(&root.join("xdg/watchexec/ignore"), "app-global.txt");
	write(&root.join("explicit/my.ignore"), "file-ign.txt");
	write(&root.join("explicit/my.filters"), "*.kept\n");
	std::fs::create_dir_all(root.join("home")).expect("mkdir");
	for f in ["file-ign.txt", "pat-ign.txt", "free.txt"] {
		write(&root.join("shared").join(f), "x");
	}
	for f in ["vcs-local.txt", "generic-local.txt", "vcs-global.txt", "app-global.txt", "mod.pyc", "pat-ign.txt", "file-ign.txt", "free.txt", "a.keep", "a.kept", "a.rs"] {
		write(&proj.join(f), "x");
	}
	std::env::set_var("HOME", root.join("home"));
	std::env::set_var("XDG_CONFIG_HOME", root.join("xdg"));
	for v in ["GIT_CONFIG", "GIT_CONFIG_GLOBAL", "GIT_CONFIG_SYSTEM", "APPDATA", "USERPROFILE", "WATCHEXEC_IGNORE_FILES", "WATCHEXEC_FILTER_FILES"] {
		std::env::remove_var(v);
	}
	std::env::set_var("GIT_CONFIG_NOSYSTEM", "1");
	Fixture { root, proj }
}

thread_local! {
	/// when set, argv() names one more watched path, absolute and missing
	static MISSING_WATCH: std::cell::Cell<bool> = const { std::cell::Cell::new(false) };
}

fn argv(fx: &Fixture, flags: &[&str], opts: &[Opt]) -> Vec<String> {
	let mut v = argv_base(fx, flags, opts);
	if MISSING_WATCH.with(std::cell::Cell::get) {
		v.insert(1, fx.root.join("vanished/watch-dir").display().to_string());
		v.insert(1, "-w".into());
	}
	v
}

fn argv_base(fx: &Fixture, flags: &[&str], opts: &[Opt]) -> Vec<String> {
	let p = fx.proj.display().to_string();
	let mut v: Vec<String> = vec!["watchexec".into(), "--project-origin".into(), p.clone(), "-w".into(), p.clone(), "-w".into(), fx.root.join("shared").display().to_string(), "--workdir".into(), p];
	v.extend(flags.iter().map(|s| (*s).to_string()));
	for o in opts {
		match o {
			Opt::Ignore => v.extend(["--ignore".into(), "pat-ign.txt".into()]),
			Opt::IgnoreFile => v.extend(["--ignore-file".into(), fx.root.join("explicit/my.ignore").display().to_string()]),
			Opt::Filter => v.extend(["--filter".into(), "*.keep".into()]),
			Opt::FilterFile => v.extend(["--filter-file".into(), fx.root.join("explicit/my.filters").display().to_string()]),
			Opt::Exts => v.extend(["--exts".into(), "rs".into()]),
			Opt::FsEvents => v.extend(["--fs-events".into(), "create".into()]),
		}
	}
	v.extend(["--".into(), "true".into()]);
	v
}

#[derive(Clone, Copy, Debug, PartialEq, Eq, Hash)]
enum Kind {
	Modify,
	Create,
}

fn event(fx: &Fixture, file: &str, kind: Kind) -> Event {
	Event {
		tags: vec![
			Tag::Source(Source::Filesystem),
			Tag::FileEventKind(match kind {
				Kind::Modify => FileEventKind::Modify(ModifyKind::Data(DataChange::Content)),
				Kind::Create => FileEventKind::Create(CreateKind::File),
			}),
			Tag::Path { path: if let Some(f) = file.strip_prefix("../") { fx.root.join(f) } else { fx.proj.join(file) }, file_type: Some(FileType::File) },
		],
		metadata: Default::default(),
	}
}

/// The documented verdict: the explicit options decide as if no flag were given; a
/// discovered / built-in source ignores its probe exactly when no given flag names it.
fn expected(file: &str, kind: Kind, flags: &[&str], opts: &[Opt]) -> bool {
	// fs-events
	if opts.contains(&Opt::FsEvents) && kind != Kind::Create {
		return false;
	}
	// explicit ignores
	if opts.contains(&Opt::Ignore) && file == "pat-ign.txt" {
		return false;
	}
	if opts.contains(&Opt::IgnoreFile) && file == "file-ign.txt" {
		return false;
	}
	// discovered and built-in sources
	for (_, probe, removers) in SOURCES {
		if file == probe && !removers.iter().any(|r| flags.contains(r)) {
			return false;
		}
	}
	// filters / extensions: if any is configured, the path must match one of them
	let filtering = opts.iter().any(|o| matches!(o, Opt::Filter | Opt::FilterFile | Opt::Exts));
	if filtering {
		let ok = (opts.contains(&Opt::Filter) && file.ends_with(".keep")) || (opts.contains(&Opt::FilterFile) && file.ends_with(".kept")) || (opts.contains(&Opt::Exts) && file.ends_with(".rs"));
		if !ok {
			return false;
		}
	}
	true
}

/// probes starting with "../" lie outside the project origin (in a second watched
/// directory); for them only clause (a) is checked, differentially: the verdict under any
/// flag mix equals the verdict of the same explicit options without flags
const PROBES: [&str; 14] = [
	"vcs-local.txt",
	"generic-local.txt",
	"vcs-global.txt",
	"app-global.txt",
	"mod.pyc",
	"pat-ign.txt",
	"file-ign.txt",
	"free.txt",
	"a.keep",
	"a.kept",
	"a.rs",
	"../shared/file-ign.txt",
	"../shared/pat-ign.txt",
	"../shared/free.txt",
];

fn owner(file: &str) -> &'static str {
	match file {
		"../shared/file-ign.txt" => "--ignore-file",
		"../shared/pat-ign.txt" => "--ignore",
		"../shared/free.txt" => "no-source",
		"pat-ign.txt" => "--ignore",
		"file-ign.txt" => "--ignore-file",
		"a.keep" => "--filter",
		"a.kept" => "--filter-file",
		"a.rs" => "--exts",
		"free.txt" => "no-source",
		f => SOURCES.iter().find(|(_, p, _)| *p == f).map_or("?", |(n, _, _)| n),
	}
}

fn opt_name(o: &[Opt]) -> String {
	if o.is_empty() {
		"none".into()
	} else {
		o.iter().map(|x| format!("{x:?}")).collect::<Vec<_>>().join("+")
	}
}

fn eval_config(fx: &Fixture, rt: &tokio::runtime::Runtime, flags: &[&str], opts: &[Opt]) -> Result<Vec<(String, Kind, bool, bool)>, String> {
	let av = argv(fx, flags, opts);
	let args = rt
		.block_on(watchexec_cli::verif::args_from(av.iter().map(std::ffi::OsString::from).collect()))
		.map_err(|e| format!("args_from({av:?}): {e}"))?;
	let filterer = rt.block_on(watchexec_cli::verif::WatchexecFilterer::new(&args)).map_err(|e| format!("WatchexecFilterer::new({av:?}): {e}"))?;
	let mut out = vec![];
	for f in PROBES {
		for k in [Kind::Modify, Kind::Create] {
			let got = filterer.check_event(&event(fx, f, k), Priority::Normal).map_err(|e| format!("check_event: {e}"))?;
			out.push((f.to_string(), k, got, expected(f, k, flags, opts)));
		}
	}
	Ok(out)
}

fn flag_set(mask: u32) -> Vec<&'static str> {
	(0..6).filter(|i| mask & (1 << i) != 0).map(|i| FLAGS[i]).collect()
}

fn opt_sets(tier: Tier) -> Vec<Vec<Opt>> {
	let mut v: Vec<Vec<Opt>> = vec![vec![]];
	v.extend(OPTS.iter().map(|o| vec![*o]));
	v.push(OPTS.to_vec());
	if tier == Tier::Thorough {
		for i in 0..OPTS.len() {
			for j in i + 1..OPTS.len() {
				v.push(vec![OPTS[i], OPTS[j]]);
			}
		}
	}
	v
}

pub fn replay(input: &Value) -> i32 {
	let fx = build_fixture();
	let rt = tokio::runtime::Builder::new_current_thread().enable_all().build().expect("rt");
	let mask = input["flag_mask"].as_u64().unwrap_or(0) as u32;
	let opts: Vec<Opt> = input["opts"].as_array().map(|a| a.iter().filter_map(|x| OPTS.iter().find(|o| format!("{o:?}") == x.as_str().unwrap_or("")).copied()).collect()).unwrap_or_default();
	let flags = flag_set(mask);
	let base = eval_config(&fx, &rt, &[], &opts);
	MISSING_WATCH.with(|m| m.set(input["missing_watch"] == true));
	println!("argv: {:?}", argv(&fx, &flags, &opts));
	let res = eval_config(&fx, &rt, &flags, &opts).map(|rows| {
		rows.into_iter()
			.enumerate()
			.map(|(i, (f, k, got, want))| {
				// outside-origin probes: differential against the no-flags verdict
				let want = if f.starts_with("../") { base.as_ref().map_or(want, |b| b[i].2) } else { want };
				(f, k, got, want)
			})
			.collect::<Vec<_>>()
	});
	let _ = std::fs::remove_dir_all(&fx.root);
	let missing = input["missing_watch"] == true;
	match res {
		Err(e) if missing => {
			println!("held: with the missing watched path the filterer refuses to be built ({e})");
			0
		}
		Err(e) => {
			println!("violated: construction failed: {e}");
			1
		}
		Ok(rows) => {
			let mut bad = 0;
			for (i, (f, k, got, want)) in rows.into_iter().enumerate() {
				// failing-discovery leg: only the explicit options' probes, against the same
				// options without the missing path and without flags
				let want = if missing {
					if !owner(&f).starts_with("--") {
						continue;
					}
					base.as_ref().map_or(want, |b| b[i].2)
				} else {
					want
				};
				println!("  {f:<18} {k:?}: verdict {} expected {}{}", if got { "pass" } else { "reject" }, if want { "pass" } else { "reject" }, if got == want { "" } else { "   <== differs" });
				if got != want {
					bad += 1;
				}
			}
			i32::from(bad > 0)
		}
	}
}

pub fn run(tier: Tier, seed: u64) -> i32 {
	let t0 = Instant::now();
	let fx = build_fixture();
	let rt = tokio::runtime::Builder::new_current_thread().enable_all().build().expect("rt");
	let mut states = 0u64;
	let mut evals = 0u64;
	let mut nontrivial: HashSet<u64> = HashSet::new();
	let mut samples: Vec<Value> = vec![];
	let mut viols: Vec<ViolationRec> = vec![];
	let mut machinery = None;
	let baseline: Vec<(Vec<Opt>, Vec<(String, Kind, bool, bool)>)> = vec![];
	let _ = baseline;
	for opts in opt_sets(tier) {
		// the no-flags verdicts of this option set: what "in the same way" refers to
		let base = match eval_config(&fx, &rt, &[], &opts) {
			Ok(b) => b,
			Err(e) => {
				machinery = Some(e);
				break;
			}
		};
		for mask in 0u32..64 {
			let flags = flag_set(mask);
			states += 1;
			let rows = match eval_config(&fx, &rt, &flags, &opts) {
				Ok(r) => r,
				Err(e) => {
					// an explicit option that stops working under a flag mix is a violation,
					// not a machinery problem, unless the no-flags build failed too
					viols.push(ViolationRec {
						property: "C12".into(),
						key: format!("C12/filterer-construction-fails/{}", opt_name(&opts)),
						detail: e,
						harness: "h-cli/c12".into(),
						scenario: json!({"flag_mask": mask, "flags": flags, "opts": opts.iter().map(|o| format!("{o:?}")).collect::<Vec<_>>()}),
						bounds: None,
						choices: vec![],
						log: vec![],
						count: 1,
					});
					continue;
				}
			};
			for (i, (f, k, got, want)) in rows.iter().enumerate() {
				evals += 1;
				let base_got = base[i].2;
				let want = if f.starts_with("../") { &base_got } else { want };
				if *got != base[i].2 {
					let mut h = std::collections::hash_map::DefaultHasher::new();
					(f, format!("{k:?}"), got, opt_name(&opts)).hash(&mut h);
					nontrivial.insert(h.finish());
				}
				if got != want {
					let own = owner(f);
					let explicit = own.starts_with("--") || own == "no-source";
					let key = if explicit {
						// (a) an explicit option's probe changed verdict under a flag mix
						let culprit = flags.iter().find(|fl| {
							let without: Vec<&str> = flags.iter().copied().filter(|x| x != *fl).collect();
							eval_config(&fx, &rt, &without, &opts).ok().map_or(false, |r| r[i].2 == r[i].3)
						});
						format!("C12/explicit-option-not-honoured/{own}/under-{}/{}", culprit.copied().unwrap_or("flag-combination"), opt_name(&opts))
					} else {
						format!("C12/source-{}/{}/{}", if *got { "removed-by-unrelated-flag" } else { "not-removed-by-its-flag" }, own, opt_name(&opts))
					};
					let detail = format!(
						"flags {flags:?}, options {}: event {k:?} on {f} (owned by {own}) got {}, expected {}",
						opt_name(&opts),
						if *got { "pass" } else { "reject" },
						if *want { "pass" } else { "reject" }
					);
					match viols.iter_mut().find(|v| v.key == key) {
						Some(v) => v.count += 1,
						None => viols.push(ViolationRec {
							property: "C12".into(),
							key,
							detail,
							harness: "h-cli/c12".into(),
							scenario: json!({"flag_mask": mask, "flags": flags, "opts": opts.iter().map(|o| format!("{o:?}")).collect::<Vec<_>>(), "probe": f, "kind": format!("{k:?}")}),
							bounds: None,
							choices: vec![],
							log: vec![],
							count: 1,
						}),
					}
				}
			}
			if samples.len() < 5 && (mask == 0 || mask == 21 || mask == 63) {
				samples.push(json!({"flags": flags, "options": opt_name(&opts), "verdicts": rows.iter().map(|(f, k, g, _)| format!("{f}/{k:?}={}", if *g { "pass" } else { "reject" })).collect::<Vec<_>>()}));
			}
		}
	}
	// failing discovery: one more watched path that does not exist. Whatever the flag mix,
	// either the filterer refuses to be built or the explicit options are honoured exactly
	// as without that path — never silently dropped
	let mut missing_cases = 0u64;
	for opts in [vec![Opt::IgnoreFile], vec![Opt::Ignore], vec![Opt::IgnoreFile, Opt::Filter]] {
		let Ok(base) = eval_config(&fx, &rt, &[], &opts) else { continue };
		for mask in 0u32..64 {
			let flags = flag_set(mask);
			MISSING_WATCH.with(|m| m.set(true));
			let r = eval_config(&fx, &rt, &flags, &opts);
			MISSING_WATCH.with(|m| m.set(false));
			states += 1;
			missing_cases += 1;
			let Ok(rows) = r else { continue };
			for (i, (f, k, got, _)) in rows.iter().enumerate() {
				evals += 1;
				let own = owner(f);
				if !(own.starts_with("--")) {
					continue;
				}
				if *got != base[i].2 {
					viols.push(ViolationRec {
						property: "C12".into(),
						key: format!("C12/explicit-option-not-honoured/{own}/when-discovery-fails/{}", opt_name(&opts)),
						detail: format!(
							"with a missing watched path the filterer is built anyway and {f}/{k:?} {} although the same options without that path {} it (flags {flags:?})",
							if *got { "passes" } else { "is rejected" },
							if base[i].2 { "pass" } else { "reject" }
						),
						harness: "h-cli/c12".into(),
						scenario: json!({"flag_mask": mask, "flags": flags, "opts": opts.iter().map(|o| format!("{o:?}")).collect::<Vec<_>>(), "probe": f, "kind": format!("{k:?}"), "missing_watch": true}),
						bounds: None,
						choices: vec![],
						log: vec![],
						count: 1,
					});
				}
			}
		}
	}
	let _ = std::fs::remove_dir_all(&fx.root);
	let mut cov = Map::new();
	cov.insert("missing_watch_path_cases".into(), json!(missing_cases));
	cov.insert("states".into(), json!(states));
	cov.insert("transitions".into(), json!(evals));
	cov.insert("traces_validated_against_impl".into(), json!(evals));
	cov.insert("evaluations".into(), json!(evals));
	cov.insert("distinct_nontrivial".into(), json!(nontrivial.len()));
	cov.insert(
		"rule".into(),
		json!("all 64 combinations of the six ignore-source flags x {no explicit option, each of --ignore / --ignore-file / --filter / --filter-file / --exts / --fs-events alone, all together (thorough: + all pairs)} x 11 probe files x {modify, create} events; non-trivial = (probe, event kind, option set, verdict) whose verdict differs from the no-flags verdict of the same option set"),
	);
	cov.insert("samples".into(), json!(samples));
	cov.insert("exhaustive".into(), json!(true));
	cov.insert("caps_hit".into(), json!(Vec::<String>::new()));
	orch::finish(Report {
		property: "C12".into(),
		tier,
		seed,
		wall_s: t0.elapsed().as_secs_f64(),
		coverage: cov,
		assumptions: vec![
			"fixture project with .git/, .gitignore, .ignore, $XDG_CONFIG_HOME/git/ignore, $XDG_CONFIG_HOME/watchexec/ignore; HOME / XDG_CONFIG_HOME point into the fixture".into(),
			"source-attribution table transcribed from the flags' help text".into(),
		],
		violations: viols,
		machinery,
	})
}
