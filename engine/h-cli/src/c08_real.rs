//! C08, real-process leg: a real `Watchexec` on a real multi-thread runtime supervising
//! real `sh` / `sleep` processes (production spawn path: KillOnDrop, process group /
//! session wrappers). Complete over a scenario matrix, NOT over OS schedules: it is
//! evidence for the clause the simulation cannot see ("no process started by a job
//! survives the shutdown, including the other members of its process group").

use std::{
	path::PathBuf,
	sync::{
		atomic::{AtomicUsize, Ordering},
		Arc,
	},
	time::{Duration, Instant},
};

use watchexec::{
	command::{Command, Program, Shell, SpawnOptions},
	Config, Watchexec,
};
use watchexec_events::{Event, Priority};
use watchexec_signals::Signal;

#[derive(Clone, Copy, Debug, PartialEq, Eq)]
pub enum Manner {
	Abort,
	Graceful0,
	Graceful300,
}

#[derive(Clone, Copy, Debug, PartialEq, Eq)]
pub enum Cmd {
	/// exits on TERM
	Sleep,
	/// shell that traps and ignores TERM
	IgnoresTerm,
	/// the leader exits on TERM, its background grandchild ignores TERM
	GrandchildIgnoresTerm,
}

#[derive(Clone, Copy, Debug, PartialEq, Eq)]
pub enum Wrap {
	None,
	Group,
	Session,
}

pub fn matrix(quick: bool) -> Vec<(Manner, Cmd, Wrap)> {
	if quick {
		return vec![(Manner::Abort, Cmd::Sleep, Wrap::Group), (Manner::Graceful0, Cmd::IgnoresTerm, Wrap::Group), (Manner::Graceful300, Cmd::GrandchildIgnoresTerm, Wrap::Group)];
	}
	let mut v = vec![];
	for m in [Manner::Abort, Manner::Graceful0, Manner::Graceful300] {
		for c in [Cmd::Sleep, Cmd::IgnoresTerm, Cmd::GrandchildIgnoresTerm] {
			for w in [Wrap::None, Wrap::Group, Wrap::Session] {
				v.push((m, c, w));
			}
		}
	}
	v
}

fn script(cmd: Cmd, pidfile: &str) -> String {
	match cmd {
		Cmd::Sleep => format!("echo $$ >> {pidfile}; exec sleep 30"),
		Cmd::IgnoresTerm => format!("trap '' TERM; echo $$ >> {pidfile}; sleep 30 & echo $! >> {pidfile}; wait; sleep 30"),
		Cmd::GrandchildIgnoresTerm => format!("echo $$ >> {pidfile}; (trap '' TERM; echo $BASHPID >> {pidfile}; sleep 30 & echo $! >> {pidfile}; wait; sleep 30) & wait"),
	}
}

fn pid_state(pid: i32) -> Option<char> {
	let s = std::fs::read_to_string(format!("/proc/{pid}/stat")).ok()?;
	let after = s.rsplit(')').next()?;
	after.trim().chars().next()
}

pub struct CaseResult {
	pub name: String,
	pub ok: bool,
	pub detail: String,
	pub main_ms: u128,
}

pub fn run_case(m: Manner, c: Cmd, w: Wrap, dir: &PathBuf) -> CaseResult {
	let name = format!("{m:?}/{c:?}/{w:?}");
	let pidfile = dir.join(format!("pids-{}-{}", std::process::id(), name.replace('/', "-")));
	let _ = std::fs::remove_file(&pidfile);
	let rt = tokio::runtime::Builder::new_multi_thread().worker_threads(2).enable_all().build().expect("rt");
	let pf = pidfile.display().to_string();
	let res: Result<(u128, String), String> = rt.block_on(async move {
		let command = Arc::new(Command {
			program: Program::Shell { shell: Shell::new("bash"), command: script(c, &pf), args: vec![] },
			options: SpawnOptions { grouped: w == Wrap::Group, session: w == Wrap::Session, ..Default::default() },
		});
		let step = Arc::new(AtomicUsize::new(0));
		let config = Config::default();
		config.throttle(Duration::ZERO);
		let st = step.clone();
		config.on_action(move |mut a| {
			match st.fetch_add(1, Ordering::SeqCst) {
				0 => {
					let (_, job) = a.create_job(command.clone());
					job.start();
				}
				_ => match m {
					Manner::Abort => a.quit(),
					Manner::Graceful0 => a.quit_gracefully(Signal::Terminate, Duration::ZERO),
					Manner::Graceful300 => a.quit_gracefully(Signal::Terminate, Duration::from_millis(300)),
				},
			}
			a
		});
		let wx = Watchexec::with_config(config).map_err(|e| e.to_string())?;
		wx.send_event(Event::default(), Priority::Urgent).await.map_err(|e| e.to_string())?;
		let main = wx.main();
		// wait until the command(s) have logged their pids
		let want = match c {
			Cmd::Sleep => 1,
			Cmd::IgnoresTerm => 2,
			Cmd::GrandchildIgnoresTerm => 3,
		};
		let t0 = Instant::now();
		loop {
			let n = std::fs::read_to_string(&pf).map(|s| s.lines().count()).unwrap_or(0);
			if n >= want {
				break;
			}
			if t0.elapsed() > Duration::from_secs(10) {
				return Err(format!("the command logged only {n} of {want} pids within 10 s"));
			}
			tokio::time::sleep(Duration::from_millis(20)).await;
		}
		tokio::time::sleep(Duration::from_millis(50)).await;
		let tq = Instant::now();
		wx.send_event(Event::default(), Priority::Urgent).await.map_err(|e| e.to_string())?;
		match tokio::time::timeout(Duration::from_secs(15), main).await {
			Err(_) => Ok((tq.elapsed().as_millis(), "main task did not finish within 15 s of the quit request".to_string())),
			Ok(Ok(Ok(()))) => Ok((tq.elapsed().as_millis(), String::new())),
			Ok(other) => Ok((tq.elapsed().as_millis(), format!("main task ended with {other:?}"))),
		}
	});
	// a subject task that spins without yielding would block an ordinary runtime drop forever
	rt.shutdown_timeout(Duration::from_secs(2));
	let (main_ms, mut problem) = match res {
		Ok(x) => x,
		Err(e) => return CaseResult { name, ok: false, detail: format!("machinery: {e}"), main_ms: 0 },
	};
	// the deadline for main: prompt for abort, grace + margin for graceful
	// generous margins: the machine may be busy; the simulated part of C08 is what checks
	// the deadlines tick-exactly
	let limit = match m {
		Manner::Abort => 5000,
		Manner::Graceful0 => 5000,
		Manner::Graceful300 => 300 + 5000,
	};
	if problem.is_empty() && main_ms > limit {
		problem = format!("main task took {main_ms} ms after the quit request (limit {limit} ms)");
	}
	// every logged pid must be gone (absent or zombie) within 2 s
	let mut pids: Vec<i32> = std::fs::read_to_string(&pidfile).unwrap_or_default().lines().filter_map(|l| l.trim().parse().ok()).collect();
	let all_pids = pids.clone();
	if w == Wrap::None || m == Manner::Abort {
		// without a process group only the process the job started itself is its business;
		// the statement promises the other group members only "after a graceful quit of a
		// grouped command" (an abort drops the handle, which kills the started process only)
		pids.truncate(1);
	}
	let t0 = Instant::now();
	let mut alive: Vec<(i32, char)> = vec![];
	loop {
		alive = pids.iter().filter_map(|p| pid_state(*p).filter(|s| *s != 'Z' && *s != 'X').map(|s| (*p, s))).collect();
		if alive.is_empty() || t0.elapsed() > Duration::from_secs(5) {
			break;
		}
		std::thread::sleep(Duration::from_millis(50));
	}
	for p in &all_pids {
		// clean up whatever is left so that the sandbox is not littered
		if pid_state(*p).is_some() {
			unsafe {
				libc_kill(*p);
			}
		}
	}
	let _ = std::fs::remove_file(&pidfile);
	if !alive.is_empty() && problem.is_empty() {
		problem = format!("processes {alive:?} (of {pids:?}) still alive 5 s after the main task returned");
	}
	CaseResult { name, ok: problem.is_empty(), detail: problem, main_ms }
}

unsafe fn libc_kill(pid: i32) {
	extern "C" {
		fn kill(pid: i32, sig: i32) -> i32;
	}
	kill(pid, 9);
}

/// Entry point of the `--real-leg` subprocess: prints one line per case.
pub fn main_leg(quick: bool) -> i32 {
	let dir = PathBuf::from(format!("/dev/shm/verif-c08real-{}", std::process::id()));
	let _ = std::fs::create_dir_all(&dir);
	let mut rc = 0;
	for (m, c, w) in matrix(quick) {
		let r = run_case(m, c, w, &dir);
		println!("REAL case={} ok={} main_ms={} detail={}", r.name, r.ok, r.main_ms, r.detail.replace('\n', " "));
		if !r.ok {
			rc = 1;
		}
	}
	let _ = std::fs::remove_dir_all(&dir);
	rc
}
