//! C05 — the CLI's on-busy policy, on the CLI's real action handler:
//! argv -> `args_from` -> `make_config` -> `Watchexec::with_config` -> `main()`, with a
//! SimChild behind the supervisor seam and a FakeWatcher behind the fs seam.

use std::{cell::RefCell, collections::HashMap, sync::Arc};

use dex::{
	explore::{choose, Bounds, Exec, Kind, Point, Policy},
	orch::{Obs, Tier},
	rt,
};
use serde::{Deserialize, Serialize};
use simchild::{Ev, Reaction, SimCfg};
use watchexec::{action::ActionReturn, Config, Watchexec};
use watchexec_events::{
	filekind::{DataChange, FileEventKind, ModifyKind},
	Event, Priority, Source, Tag,
};

#[derive(Clone, Copy, Debug, PartialEq, Eq, Hash, Serialize, Deserialize)]
pub enum Mode {
	DoNothing,
	Queue,
	Restart,
	Signal,
	/// the `-r` shorthand
	ShortRestart,
	/// the `--signal USR1` shorthand
	ShortSignal,
}

#[derive(Clone, Debug, Serialize, Deserialize)]
pub struct Sc {
	pub mode: Mode,
	pub changes: usize,
	/// the command ignores the stop signal
	pub ignores: bool,
	pub postpone: bool,
	pub stop_signal_int: bool,
	/// stop timeout in ticks (0 or 2)
	pub stop_timeout: u64,
	pub delay_run: bool,
	/// debounce in ticks (0 or 1)
	pub debounce: u64,
	pub horizon: u64,
	/// the n-th `wait()` on the command fails once (a transient error while it is alive)
	#[serde(default)]
	pub wait_fault: Option<usize>,
	/// the n-th `kill()` of the command fails once (the process stays alive)
	#[serde(default)]
	pub kill_fault: Option<usize>,
	/// every change arrives together with a signal that watchexec merely forwards to the
	/// command (USR2, as the signal source would deliver it): the batch holds both
	#[serde(default)]
	pub with_signal: bool,
}

impl Sc {
	pub fn argv(&self, dir: &str) -> Vec<String> {
		let mut v: Vec<String> = vec!["watchexec".into(), "-q".into(), "--emit-events-to".into(), "none".into(), "-n".into()];
		v.extend(["--project-origin".into(), dir.into(), "-w".into(), dir.into()]);
		match self.mode {
			Mode::DoNothing => v.extend(["--on-busy-update".into(), "do-nothing".into()]),
			Mode::Queue => v.extend(["--on-busy-update".into(), "queue".into()]),
			Mode::Restart => v.extend(["--on-busy-update".into(), "restart".into()]),
			Mode::Signal => v.extend(["--on-busy-update".into(), "signal".into()]),
			Mode::ShortRestart => v.push("-r".into()),
			Mode::ShortSignal => v.extend(["--signal".into(), "USR1".into()]),
		}
		if self.postpone {
			v.push("--postpone".into());
		}
		if self.stop_signal_int {
			v.extend(["--stop-signal".into(), "INT".into()]);
		}
		v.extend(["--stop-timeout".into(), format!("{}ms", self.stop_timeout * 10)]);
		if self.delay_run {
			v.extend(["--delay-run".into(), "10ms".into()]);
		}
		v.extend(["--debounce".into(), format!("{}ms", self.debounce * 10)]);
		v.extend(["--".into(), "sim".into()]);
		v
	}
	pub fn restarts(&self) -> bool {
		matches!(self.mode, Mode::Restart | Mode::ShortRestart)
	}
	pub fn signals(&self) -> bool {
		matches!(self.mode, Mode::Signal | Mode::ShortSignal)
	}
	/// the signal the mode sends to a busy command
	pub fn busy_signal(&self) -> i32 {
		match self.mode {
			Mode::ShortSignal => 10, // USR1
			_ => {
				if self.stop_signal_int {
					2
				} else {
					15
				}
			}
		}
	}
}

thread_local! {
	static ARGS: RefCell<HashMap<String, watchexec_cli::args::Args>> = RefCell::new(HashMap::new());
	static VIOL: RefCell<Vec<(String, String)>> = const { RefCell::new(Vec::new()) };
	static QC: std::cell::Cell<u64> = const { std::cell::Cell::new(0) };
}

pub fn scratch_dir() -> String {
	let d = format!("/dev/shm/verif-cli-{}", std::process::id());
	let _ = std::fs::create_dir_all(&d);
	d
}

/// Parse + normalise an argv once per scenario (on an ordinary runtime).
pub fn args_for(argv: Vec<String>) -> Result<watchexec_cli::args::Args, String> {
	let key = argv.join("\u{1}");
	if let Some(a) = ARGS.with(|m| m.borrow().get(&key).cloned()) {
		return Ok(a);
	}
	let rt = tokio::runtime::Builder::new_current_thread().enable_all().build().map_err(|e| e.to_string())?;
	let a = rt
		.block_on(watchexec_cli::verif::args_from(argv.iter().map(std::ffi::OsString::from).collect()))
		.map_err(|e| format!("args_from failed: {e}"))?;
	ARGS.with(|m| m.borrow_mut().insert(key, a.clone()));
	Ok(a)
}

fn push(key: String, detail: String) {
	VIOL.with(|v| {
		let mut v = v.borrow_mut();
		if !v.iter().any(|(k, _)| *k == key) {
			v.push((key, detail));
		}
	});
}

/// Build the Watchexec config from the CLI's real `make_config`, wrapping its action
/// handler so that handler entries are observable.
pub fn cli_config(args: &watchexec_cli::args::Args, state: &watchexec_cli::verif::State) -> Result<Config, String> {
	let inner = watchexec_cli::verif::make_config(args, state).map_err(|e| format!("make_config: {e}"))?;
	let config = watchexec_cli::verif::make_config(args, state).map_err(|e| format!("make_config: {e}"))?;
	let inner = Arc::new(inner);
	config.on_action_async(move |a| {
		let kinds = format!(
			"paths={} signals={:?} empty={}",
			a.paths().count(),
			a.signals().collect::<Vec<_>>(),
			a.events.iter().filter(|e| e.is_empty()).count()
		);
		simchild::note("action", a.events.len() as i64, 0, kinds);
		match inner.action_handler.call(a) {
			ActionReturn::Sync(a) => Box::new(async move { a }),
			ActionReturn::Async(f) => f,
		}
	});
	config.on_error(|e| simchild::note("runtime-error", 0, 0, e.error.to_string()));
	Ok(config)
}

#[derive(Clone, Copy, PartialEq, Eq, Debug)]
enum Act {
	Change,
	Exit,
	Tick,
}

pub fn change_event(n: usize) -> Event {
	Event {
		tags: vec![
			Tag::Source(Source::Filesystem),
			Tag::FileEventKind(FileEventKind::Modify(ModifyKind::Data(DataChange::Content))),
			Tag::Path { path: format!("/x/y{n}.rs").into(), file_type: None },
		],
		metadata: Default::default(),
	}
}

pub fn select_matters(n: usize) -> bool {
	match n {
		6 => false,
		// job task: child wait vs control receive
		2 => simchild::unreaped_exited() > 0,
		_ => true,
	}
}

pub fn run(sc: &Sc, bounds: Bounds, prefix: &[Point]) -> Result<Exec<Obs>, String> {
	VIOL.with(|v| v.borrow_mut().clear());
	QC.with(|q| q.set(0));
	let dir = scratch_dir();
	let args = args_for(sc.argv(&dir))?;
	simchild::install(SimCfg {
		reaction: if sc.ignores { Reaction::Ignore } else { Reaction::ExitNow },
		inert_signals: if sc.signals() { vec![10, 12, 15, 2] } else { vec![10, 12] },
		spawn_fail_at: None,
		op_fault: sc.wait_fault.map(|n| (simchild::FaultOp::Wait, n)).or(sc.kill_fault.map(|n| (simchild::FaultOp::Kill, n))),
	});
	fakewatcher::install();
	let sc2 = sc.clone();
	let default_schedule = matches!(bounds.mode, dex::explore::Mode::Bounded { k: 0 }) && bounds.policy == Policy::Fifo;
	let res = rt::run_one(bounds, prefix, true, move || async move {
		rt::set_select_filter(Some(Box::new(select_matters)));
		body(&sc2, args, default_schedule).await
	});
	simchild::uninstall();
	fakewatcher::uninstall();
	match res {
		Err(rt::RunError::Panic(m)) => Err(format!("harness panic: {m}")),
		Ok(ex) => match ex.out {
			Ok(o) => Ok(Exec { points: ex.points, divergence: ex.divergence, out: o }),
			Err(m) => Err(m),
		},
	}
}

async fn body(sc: &Sc, args: watchexec_cli::args::Args, default_schedule: bool) -> Result<Obs, String> {
	let state = watchexec_cli::verif::new_state(&args).await.map_err(|e| format!("state: {e}"))?;
	let config = cli_config(&args, &state)?;
	let wx = Watchexec::with_config(config).map_err(|e| format!("with_config: {e}"))?;
	if !args.events.postpone {
		wx.send_event(Event::default(), Priority::Urgent).await.map_err(|e| format!("send: {e}"))?;
	}
	let main = wx.main();
	let mut sent = 0usize;
	let mut exits = 0usize;
	let mut livelock = false;
	loop {
		let quiescent = match rt::settle(true, || {}).await {
			Ok(q) => q,
			Err(_) => {
				livelock = true;
				break;
			}
		};
		if quiescent {
			simchild::note("quiescent", 0, 0, "");
			QC.with(|q| q.set(q.get() + 1));
			at_quiescence(sc, sent);
		}
		let now = rt::now();
		let alive = simchild::alive();
		let mut menu = vec![];
		if sent < sc.changes {
			menu.push(Act::Change);
		}
		// (kill-fault scenarios: the command never ends by itself, so that a job task left
		// waiting on it after a failed kill is not released by the script)
		if !alive.is_empty() && exits < 2 && sc.kill_fault.is_none() {
			menu.push(Act::Exit);
		}
		if now < sc.horizon {
			menu.push(Act::Tick);
		}
		if menu.is_empty() {
			if !quiescent {
				continue;
			}
			break;
		}
		match menu[choose(Kind::Env, menu.len())] {
			Act::Change => {
				sent += 1;
				simchild::note("change", sent as i64, 0, "");
				if sc.with_signal {
					let sig = Event { tags: vec![Tag::Source(Source::Os), Tag::Signal(watchexec_signals::Signal::User2)], metadata: Default::default() };
					if wx.send_event(sig, Priority::High).await.is_err() {
						simchild::note("change-send-failed", sent as i64, 0, "");
					}
				}
				if wx.send_event(change_event(sent), Priority::Normal).await.is_err() {
					simchild::note("change-send-failed", sent as i64, 0, "");
				}
			}
			Act::Exit => {
				exits += 1;
				simchild::self_exit(&alive[0]);
			}
			Act::Tick => rt::tick().await,
		}
	}
	if !livelock {
		simchild::note("drain", 0, 0, "");
		for _ in 0..4 {
			if rt::settle_quiet().await.is_err() {
				livelock = true;
				break;
			}
			if let Some(c) = simchild::alive().first() {
				simchild::note("drain-exit", 0, 0, "");
				simchild::self_exit(c);
			}
			for _ in 0..(sc.stop_timeout + sc.debounce + 3) {
				rt::tick().await;
				if rt::settle_quiet().await.is_err() {
					livelock = true;
					break;
				}
			}
			if simchild::alive().is_empty() && rt::runnable_fast() == 0 {
				break;
			}
		}
	}
	for p in rt::take_panics() {
		if p.contains("/repo/") {
			push("C05/subject-panicked".into(), p);
		}
	}
	if livelock {
		push("C05/livelock".into(), "tasks kept waking each other for 20000 polls".into());
	} else {
		at_end(sc, main.is_finished(), default_schedule);
	}
	main.abort();
	drop(wx);
	let log = simchild::rendered_log();
	let nontrivial = simchild::with(|w| w.spawned > 0);
	let violations = VIOL.with(|v| std::mem::take(&mut *v.borrow_mut()));
	Ok(Obs { log, violations, nontrivial, counters: vec![("quiescent_instants_checked", QC.with(std::cell::Cell::get))] })
}

struct Facts {
	log: Vec<simchild::Rec>,
	spawns: Vec<(usize, usize)>,
	changes: Vec<usize>,
	overlaps: Vec<(usize, Vec<usize>)>,
}

fn facts() -> Facts {
	let (log, overlaps) = simchild::with(|w| (w.log.clone(), w.overlaps.clone()));
	let mut f = Facts { log, spawns: vec![], changes: vec![], overlaps };
	for (i, r) in f.log.iter().enumerate() {
		match &r.ev {
			Ev::Spawn { id, .. } => f.spawns.push((i, *id)),
			Ev::User { tag: "change", .. } => f.changes.push(i),
			_ => {}
		}
	}
	f
}

/// children that are spawned and not yet ended (exit observed or reaped/dropped) at log position p
fn running_at(log: &[simchild::Rec], p: usize) -> Option<usize> {
	let mut cur: Option<usize> = None;
	for r in &log[..p] {
		match &r.ev {
			Ev::Spawn { id, .. } => cur = Some(*id),
			Ev::Exit { id, .. } | Ev::Reap { id, .. } | Ev::Drop { id } if cur == Some(*id) => cur = None,
			_ => {}
		}
	}
	cur
}

fn at_quiescence(sc: &Sc, sent: usize) {
	let f = facts();
	// P0: runs never overlap
	if let Some((id, others)) = f.overlaps.first() {
		push("C05/runs-overlap".into(), format!("spawn#{id} while {others:?} not reaped"));
	}
	// P1: nothing runs before the first change when start-up is postponed
	if sc.postpone && sent == 0 && !f.spawns.is_empty() {
		push("C05/postponed-but-ran-at-startup".into(), format!("{} runs started before any change although --postpone was given", f.spawns.len()));
	}
}

fn at_end(sc: &Sc, main_finished: bool, default_schedule: bool) {
	let f = facts();
	if main_finished {
		push("C05/main-task-ended".into(), "watchexec ended although nothing asked it to quit".into());
		return;
	}
	if let Some((id, others)) = f.overlaps.first() {
		push("C05/runs-overlap".into(), format!("spawn#{id} while {others:?} not reaped"));
	}
	let initial = usize::from(!sc.postpone);
	// P1: the first run happens at start-up unless postponed
	if !sc.postpone {
		let first_change = f.changes.first().copied().unwrap_or(usize::MAX);
		let startup_action = f.log.iter().position(|r| matches!(&r.ev, Ev::User { tag: "action", s, .. } if s.contains("empty=1")));
		match startup_action {
			None => push("C05/no-startup-action".into(), "the start-up event never reached the action handler".into()),
			Some(a) => {
				if f.spawns.is_empty() {
					push("C05/no-run-at-startup".into(), "no run was ever started although start-up was not postponed".into());
				}
				let _ = (a, first_change);
			}
		}
	}
	// no run without a cause
	if f.spawns.len() > initial + f.changes.len() {
		push(
			"C05/more-runs-than-causes".into(),
			format!("{} runs for {} changes (+{initial} at start-up)", f.spawns.len(), f.changes.len()),
		);
	}
	// P2: a change while the command is idle starts it (every mode). "Idle" as watchexec can
	// know it: the previous run's end has been collected (between the process ending and
	// its status being collected the command may still count as running — which of the two
	// a change at that very moment meets is a race the property does not settle)
	let unobserved_end_at = |p: usize| {
		let mut ended: Option<usize> = None;
		for r in &f.log[..p] {
			match &r.ev {
				Ev::Exit { id, .. } => ended = Some(*id),
				Ev::Reap { id, .. } | Ev::Drop { id } if ended == Some(*id) => ended = None,
				Ev::Spawn { .. } => ended = None,
				_ => {}
			}
		}
		ended.is_some()
	};
	for c in &f.changes {
		if running_at(&f.log, *c).is_none() && !unobserved_end_at(*c) && !f.spawns.iter().any(|(p, _)| p > c) {
			push("C05/change-while-idle-started-nothing".into(), format!("change at log {c} found the command idle, no run followed"));
		}
	}
	let sigs: Vec<(usize, u64, usize, i32)> =
		f.log.iter().enumerate().filter_map(|(i, r)| match &r.ev {
			// (a forwarded USR2 of the with-signal scenarios is not something the mode sends)
			Ev::Sig { id, sig, ok: true } if *sig != 12 => Some((i, r.t, *id, *sig)),
			_ => None,
		}).collect();
	let kills: Vec<(usize, u64, usize)> = f.log.iter().enumerate().filter_map(|(i, r)| if let Ev::Kill { id, ok: true } = &r.ev { Some((i, r.t, *id)) } else { None }).collect();
	// every mode: a run ends by itself or through the documented stop sequence (signal, then
	// kill + wait) — its handle is never simply dropped while it runs (which would SIGKILL
	// it without collecting the status, e.g. a start that replaces a running process)
	for (i, r) in f.log.iter().enumerate() {
		if let Ev::Drop { id } = &r.ev {
			let ended = f.log[..i].iter().any(|x| match &x.ev {
				Ev::Exit { id: c, cause } => c == id && *cause != "drop",
				Ev::Reap { id: c, .. } => c == id,
				_ => false,
			});
			if !ended {
				push(format!("C05/{:?}/running-command-was-dropped", sc.mode), format!("drop#{id} at log {i}: the run was neither over nor stopped"));
			}
		}
	}
	match sc.mode {
		Mode::DoNothing | Mode::Queue => {
			// P3 / P6: the running command is never touched
			if let Some((p, _, id, sig)) = sigs.first() {
				push(format!("C05/{:?}/running-command-was-signalled", sc.mode), format!("sig#{id}:{sig} at log {p}"));
			}
			if let Some((p, _, id)) = kills.first() {
				push(format!("C05/{:?}/running-command-was-killed", sc.mode), format!("kill#{id} at log {p}"));
			}
		}
		Mode::Signal | Mode::ShortSignal => {
			// P4: only the configured signal, never a kill
			if let Some((p, _, id)) = kills.first() {
				push("C05/signal-mode/running-command-was-killed".into(), format!("kill#{id} at log {p}"));
			}
			for (p, _, id, sig) in &sigs {
				if *sig != sc.busy_signal() {
					push("C05/signal-mode/wrong-signal".into(), format!("sig#{id}:{sig} at log {p}, configured {}", sc.busy_signal()));
				}
			}
			if sigs.len() > f.changes.len() {
				push("C05/signal-mode/more-signals-than-changes".into(), format!("{} signals for {} changes", sigs.len(), f.changes.len()));
			}
			// a change that finds the command running (and still running at the next quiescent
			// instant) must have produced a signal in between
			// (timed clause: only on the default schedule, where time advances at quiescent
			// instants only — under a PREEMPT deviation a --delay-run sleep may start late)
			let quiescents: Vec<usize> = f.log.iter().enumerate().filter(|(_, r)| matches!(r.ev, Ev::User { tag: "quiescent" | "drain", .. })).map(|(i, _)| i).collect();
			// and without --delay-run: every action queues its delay in front of the signals
			// decided by earlier actions, so no fixed deadline exists for them
			for c in f.changes.iter().filter(|_| default_schedule && !sc.delay_run) {
				let Some(child) = running_at(&f.log, *c) else { continue };
				// the action that handled this change, and the first quiescent instant by which
				// its query of the job (after the optional --delay-run) has certainly run
				let Some(a) = f.log.iter().enumerate().position(|(i, r)| i > *c && matches!(&r.ev, Ev::User { tag: "action", s, .. } if !s.starts_with("paths=0"))) else { continue };
				if running_at(&f.log, a) != Some(child) {
					continue;
				}
				let ta = f.log[a].t;
				// every earlier action queued its own delay in front of this one
				let earlier_actions = f.log[..a].iter().filter(|r| matches!(r.ev, Ev::User { tag: "action", .. })).count() as u64;
				let wait = if sc.delay_run { 1 + earlier_actions } else { 0 };
				let Some(q) = quiescents.iter().find(|q| **q > a && f.log[**q].t >= ta + wait) else { continue };
				if running_at(&f.log, *q) == Some(child) && !sigs.iter().any(|(p, _, id, _)| *id == child && p > c && p < q) {
					push("C05/signal-mode/change-while-running-sent-no-signal".into(), format!("change at log {c} handled at log {a}, command #{child} running until log {q}, no signal in between"));
				}
			}
		}
		Mode::Restart | Mode::ShortRestart => {
			// P5: stop signal first, kill only at the stop timeout
			for (p, t, id, sig) in &sigs {
				if *sig != sc.busy_signal() {
					push("C05/restart-mode/wrong-stop-signal".into(), format!("sig#{id}:{sig} at log {p}, configured {}", sc.busy_signal()));
				}
				let _ = t;
			}
			for (p, t, id) in &kills {
				match sigs.iter().find(|(ps, _, sid, _)| sid == id && ps < p) {
					None => push("C05/restart-mode/killed-without-stop-signal".into(), format!("kill#{id} at log {p} with no earlier stop signal")),
					Some((_, t0, _, _)) => {
						if *t < t0 + sc.stop_timeout {
							push("C05/restart-mode/killed-before-stop-timeout".into(), format!("kill#{id} at t{t}, stop signal at t{t0}, timeout {}", sc.stop_timeout));
						}
					}
				}
			}
		}
	}
	// P7: in restart and queue modes the last change is followed by a run that started after it
	if sc.restarts() || sc.mode == Mode::Queue {
		// (an injected wait() failure that lands on the wait of a forced stop — after the kill,
		// before the status was collected — makes that stop, and with it the restart, fail for
		// good reason; the clause is about failures while the command is simply running)
		let stop_wait_failed = f.log.iter().enumerate().any(|(i, r)| {
			matches!(&r.ev, Ev::WaitErr { id, .. } if f.log[..i].iter().any(|x| matches!(&x.ev, Ev::Kill { id: c, .. } if c == id)))
		});
		// likewise a forced kill that fails after the last change: that restart is lost for good
		// reason (the next change, if any, must still be handled)
		let last_kill_failed = f.changes.last().map_or(false, |last| f.log.iter().enumerate().any(|(i, r)| i > *last && matches!(&r.ev, Ev::Kill { ok: false, .. })));
		if let Some(last) = f.changes.last().filter(|_| !stop_wait_failed && !last_kill_failed) {
			// with an injected kill failure the run must come by itself, not only once the
			// harness lets the surviving process end in its drain phase (a job task stuck in
			// wait() after the failed kill would be released by that) — provided the last
			// change left enough time before the horizon
			let drain = f.log.iter().position(|r| matches!(r.ev, Ev::User { tag: "drain", .. })).unwrap_or(f.log.len());
			let in_time = sc.kill_fault.is_none() || f.log[*last].t + 2 * sc.stop_timeout + 2 > sc.horizon;
			let limit = if in_time { f.log.len() } else { drain };
			if sc.kill_fault.is_some() && std::env::var_os("C05_DEBUG").is_some() {
				eprintln!("DBG last={} t={} in_time={} drain={} spawns={:?} kills={:?}", last, f.log[*last].t, in_time, drain, f.spawns, f.log.iter().enumerate().filter(|(_, r)| matches!(r.ev, Ev::Kill { .. })).map(|(i, r)| (i, r.render())).collect::<Vec<_>>());
			}
			if !f.spawns.iter().any(|(p, _)| p > last && *p < limit) {
				push(
					format!("C05/{}/no-run-after-last-change", if sc.restarts() { "restart" } else { "queue" }),
					format!("last change at log {last}; no run started after it (runs at {:?})", f.spawns.iter().map(|(p, _)| *p).collect::<Vec<_>>()),
				);
			}
		}
	}
}

fn both(k: usize) -> Vec<Bounds> {
	if k == 0 {
		vec![Bounds::k(0, Policy::Fifo)]
	} else {
		vec![Bounds::k(k, Policy::Fifo), Bounds::k(k, Policy::Lifo)]
	}
}

pub fn scenarios(tier: Tier) -> Vec<(Sc, Vec<Bounds>)> {
	let mut out = vec![];
	let modes = [Mode::DoNothing, Mode::Queue, Mode::Restart, Mode::Signal, Mode::ShortRestart, Mode::ShortSignal];
	for mode in modes {
		let shorthand = matches!(mode, Mode::ShortRestart | Mode::ShortSignal);
		for changes in 1..=3usize {
			for ignores in [false, true] {
				let restart = matches!(mode, Mode::Restart | Mode::ShortRestart);
				if ignores && !restart {
					continue;
				}
				// option variants: base, then one option at a time
				let mut variants: Vec<(bool, bool, u64, bool, u64)> = vec![(false, false, 2, false, 0)];
				if !shorthand {
					variants.push((true, false, 2, false, 0)); // postpone
					variants.push((false, true, 2, false, 0)); // stop-signal INT
					variants.push((false, false, 0, false, 0)); // stop-timeout 0
					variants.push((false, false, 2, true, 0)); // delay-run
					variants.push((false, false, 2, false, 1)); // debounce
				}
				for (postpone, int, st, delay, deb) in variants {
					if (int || st == 0) && !(restart || matches!(mode, Mode::Signal)) {
						continue;
					}
					let sc = Sc { mode, changes, ignores, postpone, stop_signal_int: int, stop_timeout: st, delay_run: delay, debounce: deb, horizon: st + deb + 2, wait_fault: None, kill_fault: None, with_signal: false };
					let base_variant = !postpone && !int && st == 2 && !delay && deb == 0;
					let passes: Vec<Bounds> = match (tier, changes) {
						(Tier::Quick, 1) => [both(0), both(1)].concat(),
						(Tier::Quick, 2) if base_variant => [both(0), both(1)].concat(),
						(Tier::Quick, 2) => both(0),
						(Tier::Quick, _) if base_variant => both(0),
						(Tier::Quick, _) => continue,
						(Tier::Thorough, 1) => [both(0), both(1), both(2)].concat(),
						(Tier::Thorough, 2) if base_variant => {
							let mut p = [both(0), both(1), both(2)].concat();
							p.push(Bounds::window(8, Policy::Fifo));
							p.push(Bounds::window(12, Policy::Lifo));
							p
						}
						(Tier::Thorough, 2) => [both(0), both(1)].concat(),
						(Tier::Thorough, _) if base_variant => [both(0), both(1)].concat(),
						(Tier::Thorough, _) => both(0),
					};
					out.push((sc.clone(), passes));
					// the change shares its batch with a signal that is merely forwarded to the
					// command: the change is handled all the same
					if (base_variant || (deb == 1 && !postpone && !int && st == 2 && !delay)) && changes <= 2 {
						let mut f = sc.clone();
						f.with_signal = true;
						out.push((f, if changes == 1 { [both(0), both(1)].concat() } else { both(0) }));
					}
					// a transient wait() error while the command runs must not change what the
					// mode does with a change (default schedule)
					if base_variant && changes <= 2 && !shorthand {
						for n in 1..=6usize {
							let mut f = sc.clone();
							f.wait_fault = Some(n);
							out.push((f, both(0)));
						}
						// a failing forced kill (the command ignores the stop signal and survives
						// the kill attempt): that restart may be lost, the next change must still
						// be handled
						if restart && ignores && changes == 2 {
							let mut f = sc.clone();
							f.kill_fault = Some(1);
							f.changes = 3;
							f.horizon = 3 * (st + 2);
							out.push((f, both(0)));
						}
					}
				}
			}
		}
	}
	out
}
