//! CLI harness: C05 (on-busy policy), C08 (quit), C12 (explicit filters vs ignore flags).

mod c05;
mod c08;
mod c08_real;
mod c12;

use dex::{
	explore::{Bounds, Exec, Point},
	orch::{self, Harness, Obs, Tier},
};

struct C05;

impl Harness for C05 {
	type Sc = c05::Sc;
	fn name(&self) -> &'static str {
		"h-cli/on-busy"
	}
	fn property(&self) -> &str {
		"C05"
	}
	fn scenarios(&self, tier: Tier) -> Vec<(c05::Sc, Vec<Bounds>)> {
		c05::scenarios(tier)
	}
	fn run(&self, sc: &c05::Sc, bounds: Bounds, prefix: &[Point]) -> Result<Exec<Obs>, String> {
		c05::run(sc, bounds, prefix)
	}
	fn replay_every(&self, tier: Tier) -> u64 {
		match tier {
			Tier::Quick => 256,
			Tier::Thorough => 4096,
		}
	}
}

struct C08;

impl Harness for C08 {
	type Sc = c08::Sc;
	fn name(&self) -> &'static str {
		"h-cli/quit"
	}
	fn property(&self) -> &str {
		"C08"
	}
	fn scenarios(&self, tier: Tier) -> Vec<(c08::Sc, Vec<Bounds>)> {
		c08::scenarios(tier)
	}
	fn run(&self, sc: &c08::Sc, bounds: Bounds, prefix: &[Point]) -> Result<Exec<Obs>, String> {
		c08::run(sc, bounds, prefix)
	}
	fn replay_every(&self, tier: Tier) -> u64 {
		match tier {
			Tier::Quick => 256,
			Tier::Thorough => 4096,
		}
	}
}

fn main() {
	let argv: Vec<String> = std::env::args().skip(1).collect();
	let args = orch::parse_args(&argv);
	let prop = args.rest.first().cloned().unwrap_or_else(|| {
		eprintln!("usage: h-cli <C05|C08|C12> [--tier quick|thorough] [--replay file]");
		std::process::exit(2);
	});
	let assumptions = vec![
		"atomic step = one task poll on a current-thread tokio runtime (tokio 1.43.0 with the explorer seams)".to_string(),
		"the CLI's real argument parsing, normalisation and make_config action handler run in-process (cfg(watchexec_verif) entry points)".to_string(),
		"the supervised command is a SimChild, the filesystem watcher a FakeWatcher; virtual time, 1 tick = 10 ms".to_string(),
	];
	let code = match prop.as_str() {
		"C05" => {
			let h = C05;
			if args.rest.get(1).map(String::as_str) == Some("--count") {
				println!("{} scenarios", h.scenarios(args.tier).len());
				return;
			}
			let rule = "every mode / option variant x every ENV order of change events, command exits and ticks, times every SELECT/SCHED/PREEMPT deviation set within the pass bound (FIFO and LIFO base policies, anchored windows in the thorough tier); non-trivial = at least one run was started; distinct = distinct observation logs";
			let c = orch::dex_main(&h, &args, &[prop], assumptions, rule);
			let _ = std::fs::remove_dir_all(c05::scratch_dir());
			c
		}
		"C12" => {
			if let Some(path) = &args.replay {
				let v: orch::ViolationRec = match std::fs::read_to_string(path).ok().and_then(|s| serde_json::from_str(&s).ok()) {
					Some(v) => v,
					None => {
						eprintln!("cannot read replay file {}", path.display());
						std::process::exit(2);
					}
				};
				let c = c12::replay(&v.scenario);
				if c == 1 {
					println!("VIOLATION property=C12 replay={}", path.display());
				} else {
					println!("replay: no violation");
				}
				c
			} else {
				c12::run(args.tier, args.seed)
			}
		}
		"C08" if args.rest.get(1).map(String::as_str) == Some("--real-leg") => c08_real::main_leg(args.tier == Tier::Quick),
		// a recorded violation of the real-process matrix is replayed by running the matrix again
		"C08"
			if args.replay.as_ref().map_or(false, |f| {
				std::fs::read_to_string(f).ok().and_then(|t| serde_json::from_str::<serde_json::Value>(&t).ok()).map_or(false, |v| v["scenario"].get("real_case").is_some())
			}) =>
		{
			let code = c08_real::main_leg(false);
			if code == 1 {
				println!("VIOLATION property=C08 replay={}", args.replay.as_ref().unwrap().display());
			}
			code
		}
		"C08" => {
			let h = C08;
			if args.rest.get(1).map(String::as_str) == Some("--count") {
				println!("{} scenarios", h.scenarios(args.tier).len());
				return;
			}
			let rule = "every job state class (and every pair of classes at the default schedule) x quit manner x grace x child reaction x (quit in the creating action | later), and the CLI's handler under interrupt/terminate events; every ENV order of quit trigger, child exits and ticks, times every deviation set within the pass bound; non-trivial = at least one process was started; distinct = distinct canonical observation logs";
			let tier = args.tier;
			let post: Option<orch::Post<'_>> = if args.worker.is_none() && args.replay.is_none() {
				Some(Box::new(move |cov, viols| {
					// real-process leg in a subprocess (it installs signal handlers)
					let exe = std::env::current_exe().expect("exe");
					let mut cmd = std::process::Command::new(exe);
					cmd.args(["C08", "--real-leg", "--tier", tier.name()]);
					let Some(o) = orch::output_with_timeout(cmd, if tier == Tier::Quick { 120 } else { 600 }) else {
						cov.insert("real_process_leg".into(), serde_json::json!("not completed within its wall limit (no verdict from this leg)"));
						eprintln!("MACHINERY-WARNING property=C08 real-process leg did not complete");
						return;
					};
					let text = String::from_utf8_lossy(&o.stdout).to_string();
					let mut cases = vec![];
					for l in text.lines().filter(|l| l.starts_with("REAL case=")) {
						let name = l.split_whitespace().find_map(|t| t.strip_prefix("case=")).unwrap_or("?").to_string();
						let ok = l.contains(" ok=true ");
						let detail = l.split(" detail=").nth(1).unwrap_or("").to_string();
						cases.push(serde_json::json!({"case": name, "ok": ok, "detail": detail}));
						if !ok {
							if detail.starts_with("machinery:") {
								eprintln!("MACHINERY-WARNING property=C08 real-process case {name}: {detail}");
								continue;
							}
							let what = if detail.contains("still alive") { "process-left-behind" } else { "main-task-late-or-failed" };
							viols.push(orch::ViolationRec {
								property: "C08".into(),
								key: format!("C08/real/{what}/{name}"),
								detail,
								harness: "h-cli/c08-real".into(),
								scenario: serde_json::json!({"real_case": name}),
								bounds: None,
								choices: vec![],
								log: vec![],
								count: 1,
							});
						}
					}
					cov.insert("real_process_leg".into(), serde_json::json!({"note": "complete over the scenario matrix, not over OS schedules", "cases": cases}));
				}))
			} else {
				None
			};
			let c = orch::dex_main_with(&h, &args, &[prop], assumptions, rule, post);
			let _ = std::fs::remove_dir_all(c05::scratch_dir());
			c
		}
		_ => {
			eprintln!("unknown property {prop}");
			2
		}
	};
	std::process::exit(code);
}
