//! CLI harness: C05 (on-busy policy), C08 (quit), C12 (explicit filters vs ignore flags).

mod c05;
mod c08;
mod c12;

use dex::{
	explore::{Bounds, Exec, Point},
	orch::{self, Harness, Obs, Tier},
};

struct C05;

impl Harness for C05 {
	type Sc = c05::Sc;
	fn name(&self) -> &'static str {
		"h-cli/on-busy"
	}
	fn property(&self) -> &str {
		"C05"
	}
	fn scenarios(&self, tier: Tier) -> Vec<(c05::Sc, Vec<Bounds>)> {
		c05::scenarios(tier)
	}
	fn run(&self, sc: &c05::Sc, bounds: Bounds, prefix: &[Point]) -> Result<Exec<Obs>, String> {
		c05::run(sc, bounds, prefix)
	}
	fn replay_every(&self, tier: Tier) -> u64 {
		match tier {
			Tier::Quick => 256,
			Tier::Thorough => 4096,
		}
	}
}

struct C08;

impl Harness for C08 {
	type Sc = c08::Sc;
	fn name(&self) -> &'static str {
		"h-cli/quit"
	}
	fn property(&self) -> &str {
		"C08"
	}
	fn scenarios(&self, tier: Tier) -> Vec<(c08::Sc, Vec<Bounds>)> {
		c08::scenarios(tier)
	}
	fn run(&self, sc: &c08::Sc, bounds: Bounds, prefix: &[Point]) -> Result<Exec<Obs>, String> {
		c08::run(sc, bounds, prefix)
	}
	fn replay_every(&self, tier: Tier) -> u64 {
		match tier {
			Tier::Quick => 256,
			Tier::Thorough => 4096,
		}
	}
}

fn main() {
	let argv: Vec<String> = std::env::args().skip(1).collect();
	let args = orch::parse_args(&argv);
	let prop = args.rest.first().cloned().unwrap_or_else(|| {
		eprintln!("usage: h-cli <C05|C08|C12> [--tier quick|thorough] [--replay file]");
		std::process::exit(2);
	});
	let assumptions = vec![
		"atomic step = one task poll on a current-thread tokio runtime (tokio 1.43.0 with the explorer seams)".to_string(),
		"the CLI's real argument parsing, normalisation and make_config action handler run in-process (cfg(watchexec_verif) entry points)".to_string(),
		"the supervised command is a SimChild, the filesystem watcher a FakeWatcher; virtual time, 1 tick = 10 ms".to_string(),
	];
	let code = match prop.as_str() {
		"C05" => {
			let h = C05;
			if args.rest.get(1).map(String::as_str) == Some("--count") {
				println!("{} scenarios", h.scenarios(args.tier).len());
				return;
			}
			let rule = "every mode / option variant x every ENV order of change events, command exits and ticks, times every SELECT/SCHED/PREEMPT deviation set within the pass bound (FIFO and LIFO base policies, anchored windows in the thorough tier); non-trivial = at least one run was started; distinct = distinct observation logs";
			let c = orch::dex_main(&h, &args, &[prop], assumptions, rule);
			let _ = std::fs::remove_dir_all(c05::scratch_dir());
			c
		}
		"C12" => {
			if let Some(path) = &args.replay {
				let v: orch::ViolationRec = match std::fs::read_to_string(path).ok().and_then(|s| serde_json::from_str(&s).ok()) {
					Some(v) => v,
					None => {
						eprintln!("cannot read replay file {}", path.display());
						std::process::exit(2);
					}
				};
				let c = c12::replay(&v.scenario);
				if c == 1 {
					println!("VIOLATION property=C12 replay={}", path.display());
				} else {
					println!("replay: no violation");
				}
				c
			} else {
				c12::run(args.tier, args.seed)
			}
		}
		"C08" => {
			let h = C08;
			if args.rest.get(1).map(String::as_str) == Some("--count") {
				println!("{} scenarios", h.scenarios(args.tier).len());
				return;
			}
			let rule = "every job state class (and every pair of classes at the default schedule) x quit manner x grace x child reaction x (quit in the creating action | later), and the CLI's handler under interrupt/terminate events; every ENV order of quit trigger, child exits and ticks, times every deviation set within the pass bound; non-trivial = at least one process was started; distinct = distinct canonical observation logs";
			let c = orch::dex_main(&h, &args, &[prop], assumptions, rule);
			let _ = std::fs::remove_dir_all(c05::scratch_dir());
			c
		}
		_ => {
			eprintln!("unknown property {prop}");
			2
		}
	};
	std::process::exit(code);
}
