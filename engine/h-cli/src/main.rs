fn main(){}
