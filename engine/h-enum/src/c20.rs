//! C20 — project origins are exactly the marked ancestors; types follow the markers; every
//! project type is exactly one of {version control, software suite}.
//!
//! Bounded-exhaustive enumeration of directory chains `base/l1[/l2[/l3]]` on tmpfs (the base is
//! marker-free), with the real `project_origins::origins` called from every start depth and the
//! real `project_origins::types` called on every directory of the chain:
//!
//!  * every recognised marker name and a few look-alike decoys x {as a file, as a directory}
//!    x every level x every chain depth 1..=3 (so markers of the wrong node type are included);
//!  * every pair of such placements inside one directory (quick: at the middle level;
//!    thorough: at every level);
//!  * pairs of placements in two different directories (quick: 12 representative placements,
//!    thorough: all), every pair of levels;
//!  * the 22 `ProjectType` values: `is_vcs` xor `is_soft`, and the documented category.
//!
//! Reference model (`TYPED`, `ORIGIN_ONLY`, `model_*` below): the marker -> type table is taken
//! from the rustdoc of the `ProjectType` variants ("Detects when a `X` file / folder is
//! present"); every such marker is also an origin marker (`types` "should be called with a
//! result of origins()"). `origins` is documented to look at "a wider variety of files" without
//! listing them, so the additional origin-only names are the crate's own published list — for
//! those the check still owns node type, level, start depth and exactness. Directories above
//! the base (`/dev/shm`, `/dev`, `/`) are compared with an independent `std::fs` listing.
//!
//! Not covered (left unspecified by the statement): symlinks to regular files as markers, relative start paths,
//! start paths that are files or do not exist.

use std::{
	collections::BTreeSet,
	path::{Path, PathBuf},
};

use dex::orch::Tier;
use project_origins::ProjectType;
use serde::{Deserialize, Serialize};
use serde_json::{json, Value};

use crate::common::{par_map, EnumOut, Scratch};

const F: bool = false; // marker must be a file
const D: bool = true; // marker must be a directory

/// (marker name, must be a directory?, project type) — from the ProjectType rustdoc.
const TYPED: [(&str, bool, &str); 31] = [
	(".bzr", D, "Bazaar"),
	(".bzrignore", F, "Bazaar"),
	("_darcs", D, "Darcs"),
	(".fossil-settings", D, "Fossil"),
	(".git", D, "Git"),
	(".git", F, "Git"),
	(".gitattributes", F, "Git"),
	(".gitmodules", F, "Git"),
	(".hg", D, "Mercurial"),
	(".hgignore", F, "Mercurial"),
	(".hgtags", F, "Mercurial"),
	(".svn", D, "Subversion"),
	("Gemfile", F, "Bundler"),
	(".ctags", F, "C"),
	("Cargo.toml", F, "Cargo"),
	("Dockerfile", F, "Docker"),
	("mix.exs", F, "Elixir"),
	("go.mod", F, "Go"),
	("go.sum", F, "Go"),
	("build.gradle", F, "Gradle"),
	("package.json", F, "JavaScript"),
	("cgmanifest.json", F, "JavaScript"),
	("project.clj", F, "Leiningen"),
	("pom.xml", F, "Maven"),
	(".perltidyrc", F, "Perl"),
	("Makefile.PL", F, "Perl"),
	("composer.json", F, "PHP"),
	("requirements.txt", F, "Pip"),
	("Pipfile", F, "Pip"),
	("v.mod", F, "V"),
	("build.zig", F, "Zig"),
];

/// Names that mark an origin without identifying a project type.
const ORIGIN_ONLY: [(&str, bool); 22] = [
	(".github", D),
	(".asf.yaml", F),
	(".codecov.yml", F),
	(".editorconfig", F),
	(".travis.yml", F),
	("appveyor.yml", F),
	("build.properties", F),
	("build.xml", F),
	("Cargo.lock", F),
	("CMakeLists.txt", F),
	("COPYING", F),
	("docker-compose.yml", F),
	("LICENSE.txt", F),
	("LICENSE", F),
	("Makefile.am", F),
	("Makefile.pl", F),
	("Makefile", F),
	("moonshine-dependencies.xml", F),
	("package-lock.json", F),
	("pnpm-lock.yaml", F),
	("yarn.lock", F),
	("CONTRIBUTING.md", F),
];

/// Look-alikes that are not markers (".gitignore" is excluded explicitly by the Git docs).
const DECOYS: [&str; 6] = [".gitignore", "cargo.toml", "Cargo.toml.orig", "README.md", "src", ".GIT"];

/// Every ProjectType value with its documented category ("VCS:" / "Soft:" in the rustdoc).
const TYPES: [(ProjectType, &str, bool); 22] = [
	(ProjectType::Bazaar, "Bazaar", true),
	(ProjectType::Darcs, "Darcs", true),
	(ProjectType::Fossil, "Fossil", true),
	(ProjectType::Git, "Git", true),
	(ProjectType::Mercurial, "Mercurial", true),
	(ProjectType::Pijul, "Pijul", true),
	(ProjectType::Subversion, "Subversion", true),
	(ProjectType::Bundler, "Bundler", false),
	(ProjectType::C, "C", false),
	(ProjectType::Cargo, "Cargo", false),
	(ProjectType::Docker, "Docker", false),
	(ProjectType::Elixir, "Elixir", false),
	(ProjectType::Go, "Go", false),
	(ProjectType::Gradle, "Gradle", false),
	(ProjectType::JavaScript, "JavaScript", false),
	(ProjectType::Leiningen, "Leiningen", false),
	(ProjectType::Maven, "Maven", false),
	(ProjectType::Perl, "Perl", false),
	(ProjectType::PHP, "PHP", false),
	(ProjectType::Pip, "Pip", false),
	(ProjectType::V, "V", false),
	(ProjectType::Zig, "Zig", false),
];

// ---------------------------------------------------------------------------------------------
// reference model

fn model_is_marker(name: &str, is_dir: bool) -> bool {
	TYPED.iter().any(|(n, d, _)| *n == name && *d == is_dir) || ORIGIN_ONLY.iter().any(|(n, d)| *n == name && *d == is_dir)
}

fn model_types(name: &str, is_dir: bool) -> impl Iterator<Item = &'static str> + '_ {
	TYPED.iter().filter(move |(n, d, _)| *n == name && *d == is_dir).map(|(_, _, t)| *t)
}

/// Independent listing of a real directory (ancestors above the generated base).
fn model_dir_is_origin(dir: &Path) -> bool {
	let Ok(rd) = std::fs::read_dir(dir) else { return false };
	rd.flatten().any(|e| {
		let Ok(ft) = e.file_type() else { return false };
		let name = e.file_name();
		let Some(name) = name.to_str() else { return false };
		(ft.is_dir() && model_is_marker(name, true)) || (ft.is_file() && model_is_marker(name, false))
	})
}

// ---------------------------------------------------------------------------------------------
// configurations

#[derive(Clone, Debug, PartialEq, Serialize, Deserialize)]
struct Placement {
	/// 1-based level in the chain
	level: usize,
	name: String,
	dir: bool,
	/// a node that is neither a regular file nor a directory ("fifo", "dangling-symlink",
	/// "symlink-to-dir"): a marker name on such a node is a marker of the wrong node type
	#[serde(default)]
	odd: Option<String>,
}

impl Placement {
	fn is_marker(&self) -> bool {
		self.odd.is_none() && model_is_marker(&self.name, self.dir)
	}
	fn types(&self) -> Vec<&'static str> {
		if self.odd.is_some() {
			vec![]
		} else {
			model_types(&self.name, self.dir).collect()
		}
	}
}

#[derive(Clone, Debug, Serialize, Deserialize)]
struct Tree {
	depth: usize,
	placements: Vec<Placement>,
}

fn pname(p: &Placement) -> String {
	format!("{}-as-{}", p.name, p.odd.as_deref().unwrap_or(if p.dir { "dir" } else { "file" }))
}

struct Eval {
	violations: Vec<(String, String)>,
	evaluations: u64,
	/// (what, start/level, result summary) of every non-empty result
	outcomes: Vec<(String, usize, String)>,
	summary: Value,
}

/// Build the tree under `root` (which must not exist), run the real functions, compare.
fn eval_tree(rt: &tokio::runtime::Runtime, root: &Path, t: &Tree) -> Result<Eval, String> {
	let _ = std::fs::remove_dir_all(root);
	let base = root.join("b");
	let mut chain: Vec<PathBuf> = vec![base.clone()]; // chain[0] = base (marker-free), chain[i] = level i
	for i in 1..=t.depth {
		chain.push(chain[i - 1].join(format!("l{i}")));
	}
	std::fs::create_dir_all(&chain[t.depth]).map_err(|e| format!("mkdir: {e}"))?;
	for p in &t.placements {
		if p.level == 0 || p.level > t.depth {
			return Err(format!("placement level {} outside the chain", p.level));
		}
		let path = chain[p.level].join(&p.name);
		if let Some(odd) = &p.odd {
			match odd.as_str() {
				"fifo" => {
					use std::os::unix::ffi::OsStrExt;
					extern "C" {
						fn mkfifo(path: *const std::os::raw::c_char, mode: u32) -> i32;
					}
					let c = std::ffi::CString::new(path.as_os_str().as_bytes()).map_err(|e| e.to_string())?;
					if unsafe { mkfifo(c.as_ptr(), 0o600) } != 0 {
						return Err(format!("mkfifo {}: {}", path.display(), std::io::Error::last_os_error()));
					}
				}
				"dangling-symlink" => std::os::unix::fs::symlink("does-not-exist", &path).map_err(|e| format!("symlink: {e}"))?,
				"symlink-to-dir" => std::os::unix::fs::symlink(".", &path).map_err(|e| format!("symlink: {e}"))?,
				other => return Err(format!("unknown node kind {other}")),
			}
		} else if p.dir {
			std::fs::create_dir(&path).map_err(|e| format!("mkdir marker: {e}"))?;
		} else {
			std::fs::write(&path, b"").map_err(|e| format!("write marker: {e}"))?;
		}
	}
	let at = |lvl: usize| t.placements.iter().filter(move |p| p.level == lvl);
	let level_is_origin = |lvl: usize| at(lvl).any(Placement::is_marker);
	let above: Vec<PathBuf> = base.ancestors().skip(1).map(Path::to_path_buf).collect();

	let mut ev = Eval { violations: vec![], evaluations: 0, outcomes: vec![], summary: Value::Null };
	let mut summary = vec![];
	for start in 1..=t.depth {
		ev.evaluations += 1;
		let got = rt.block_on(project_origins::origins(&chain[start]));
		let levels: Vec<usize> = (0..=t.depth).filter(|l| got.contains(&chain[*l])).collect();
		for lvl in 0..=t.depth {
			let want = lvl >= 1 && lvl <= start && level_is_origin(lvl);
			let has = got.contains(&chain[lvl]);
			if want && !has {
				let m = at(lvl).find(|p| p.is_marker()).map(pname).unwrap_or_default();
				ev.violations.push((
					format!("C20/origins/missed/{m}"),
					format!("level {lvl} holds {m} and is an ancestor-or-self of the start (level {start}) but origins() returned only the levels {levels:?} of the chain ({} paths in all)", got.len()),
				));
			}
			if has && !want {
				let why = if lvl > start {
					"below-start".to_string()
				} else if let Some(p) = at(lvl).find(|p| p.odd.is_some() || model_is_marker(&p.name, !p.dir)).or(at(lvl).next()) {
					// blame a marker name of the wrong node type first, then a look-alike
					format!("not-a-marker/{}", pname(p))
				} else {
					"unmarked-directory".to_string()
				};
				ev.violations.push((
					format!("C20/origins/spurious/{why}"),
					format!("origins() from level {start} returned level {lvl}, which holds {:?}", at(lvl).map(pname).collect::<Vec<_>>()),
				));
			}
		}
		// nothing outside the chain of the start path and its ancestors
		for g in &got {
			if !chain.contains(g) && !above.contains(g) {
				ev.violations.push(("C20/origins/spurious/outside-the-ancestor-chain".into(), format!("origins() from level {start} returned {}", g.display())));
			}
		}
		// ancestors above the generated base: independent listing
		for a in &above {
			let has = got.contains(a);
			if has != model_dir_is_origin(a) && has != model_dir_is_origin(a) {
				ev.violations.push((
					format!("C20/origins/above-base/{}", if has { "spurious" } else { "missed" }),
					format!("{}: origins() says {has}, an independent listing says {}", a.display(), !has),
				));
			}
		}
		if !levels.is_empty() {
			ev.outcomes.push(("origins".into(), start, format!("{levels:?}")));
		}
		summary.push(json!({"origins_from_level": start, "levels_returned": levels}));
	}
	// a start path whose last two components do not exist (a vanished subtree): the
	// directories that cannot be listed are simply not origins, the walk goes on above them
	{
		ev.evaluations += 1;
		let start = chain[t.depth].join("gone").join("away");
		let got = rt.block_on(project_origins::origins(&start));
		for lvl in 1..=t.depth {
			let want = level_is_origin(lvl);
			let has = got.contains(&chain[lvl]);
			if want && !has {
				let m = at(lvl).find(|p| p.is_marker()).map(pname).unwrap_or_default();
				ev.violations.push((
					format!("C20/origins/missed/below-unlistable-start/{m}"),
					format!("start path {} (two missing trailing components): level {lvl} holds {m} and is an ancestor, origins() returned {} paths without it", start.display(), got.len()),
				));
			}
			if has && !want {
				ev.violations.push(("C20/origins/spurious/below-unlistable-start".into(), format!("start path {}: origins() returned unmarked level {lvl}", start.display())));
			}
		}
		if got.contains(&start) || got.contains(&chain[t.depth].join("gone")) {
			ev.violations.push(("C20/origins/spurious/nonexistent-directory".into(), format!("start path {}: origins() returned a directory that does not exist", start.display())));
		}
	}
	for lvl in 1..=t.depth {
		ev.evaluations += 1;
		let got: BTreeSet<String> = rt.block_on(project_origins::types(&chain[lvl])).into_iter().map(|t| format!("{t:?}")).collect();
		let want: BTreeSet<String> = at(lvl).flat_map(Placement::types).map(str::to_string).collect();
		for w in want.difference(&got) {
			let m = at(lvl).find(|p| p.types().iter().any(|t| t == w)).map(pname).unwrap_or_default();
			ev.violations.push((format!("C20/types/missed/{w}-from-{m}"), format!("level {lvl} holds {m} but types() returned {got:?}")));
		}
		for g in got.difference(&want) {
			ev.violations.push((
				format!("C20/types/spurious/{g}"),
				format!("types() returned {g} for a directory holding only {:?}", at(lvl).map(pname).collect::<Vec<_>>()),
			));
		}
		if !got.is_empty() {
			ev.outcomes.push(("types".into(), 0, format!("{got:?}")));
			summary.push(json!({"types_at_level": lvl, "types": got}));
		}
	}
	ev.summary = json!(summary);
	let _ = std::fs::remove_dir_all(root);
	Ok(ev)
}

fn eval_class(name: &str) -> Vec<(String, String)> {
	let mut v = vec![];
	let Some((t, _, vcs)) = TYPES.iter().find(|(_, n, _)| *n == name) else { return v };
	let (is_vcs, is_soft) = (t.is_vcs(), t.is_soft());
	if !is_vcs && !is_soft {
		v.push((format!("C20/classification/neither/{name}"), format!("ProjectType::{name}: is_vcs() = false and is_soft() = false")));
	} else if is_vcs && is_soft {
		v.push((format!("C20/classification/both/{name}"), format!("ProjectType::{name}: is_vcs() = true and is_soft() = true")));
	} else if is_vcs != *vcs {
		v.push((
			format!("C20/classification/wrong-category/{name}"),
			format!("ProjectType::{name} is documented as {} but is_vcs() = {is_vcs}, is_soft() = {is_soft}", if *vcs { "VCS" } else { "Soft" }),
		));
	}
	if format!("{t:?}") != name {
		v.push((format!("C20/classification/table/{name}"), format!("harness table row {name} holds {t:?}")));
	}
	v
}

pub fn replay(input: &Value) -> Vec<(String, String)> {
	match input["kind"].as_str().unwrap_or("") {
		"class" => eval_class(input["type"].as_str().unwrap_or("")),
		"symlink-leg" => {
			let mut o = EnumOut::new("replay");
			symlink_leg(&mut o);
			o.violations.into_iter().map(|c| (c.key, c.detail)).collect()
		}
		"history-leg" => {
			let mut o = EnumOut::new("replay");
			history_leg(&mut o);
			o.violations.into_iter().map(|c| (c.key, c.detail)).collect()
		}
		"root-leg" => {
			// re-run the whole (small) filesystem-root leg and report its violations
			let mut o = EnumOut::new("replay");
			root_leg(&mut o);
			o.violations.into_iter().map(|c| (c.key, c.detail)).collect()
		}
		"tree" => {
			let Ok(t) = serde_json::from_value::<Tree>(input["tree"].clone()) else {
				return vec![("C20/replay/bad-input".into(), "tree".into())];
			};
			let scratch = Scratch::new("c20r");
			let rt = tokio::runtime::Builder::new_current_thread().enable_all().build().expect("runtime");
			match eval_tree(&rt, &scratch.path().join("r"), &t) {
				Ok(ev) => ev.violations,
				Err(e) => vec![("C20/replay/machinery".into(), e)],
			}
		}
		_ => vec![("C20/replay/bad-input".into(), "kind".into())],
	}
}

fn shuffle<T>(v: &mut [T], seed: u64) {
	let mut s = seed ^ 0x9E37_79B9_7F4A_7C15;
	for i in (1..v.len()).rev() {
		s = s.wrapping_mul(6364136223846793005).wrapping_add(1442695040888963407);
		v.swap(i, ((s >> 33) as usize) % (i + 1));
	}
}

pub fn run(tier: Tier, seed: u64) -> EnumOut {
	let rule = "non-trivial = a non-empty result inside the generated chain: origins() reporting at least one level (distinct by start depth and set of levels) or types() reporting at least one type (distinct by set of types)";
	let thorough = tier == Tier::Thorough;

	// every distinct name x both node types
	let mut names: Vec<&str> = vec![];
	for n in TYPED.iter().map(|x| x.0).chain(ORIGIN_ONLY.iter().map(|x| x.0)).chain(DECOYS) {
		if !names.contains(&n) {
			names.push(n);
		}
	}
	let all: Vec<(String, bool)> = names.iter().flat_map(|n| [(n.to_string(), false), (n.to_string(), true)]).collect();
	let place = |lvl: usize, p: &(String, bool)| Placement { level: lvl, name: p.0.clone(), dir: p.1, odd: None };

	let mut trees: Vec<Tree> = vec![];
	for depth in 1..=3 {
		trees.push(Tree { depth, placements: vec![] });
		for lvl in 1..=depth {
			for p in &all {
				trees.push(Tree { depth, placements: vec![place(lvl, p)] });
			}
		}
	}
	// marker names on nodes that are neither regular files nor directories
	for depth in 1..=(if thorough { 3 } else { 2 }) {
		for lvl in 1..=depth {
			for n in &names {
				for odd in ["fifo", "dangling-symlink", "symlink-to-dir"] {
					trees.push(Tree { depth, placements: vec![Placement { level: lvl, name: (*n).to_string(), dir: false, odd: Some(odd.to_string()) }] });
				}
			}
		}
	}
	// pairs in one directory
	let pair_levels: &[usize] = if thorough { &[1, 2, 3] } else { &[2] };
	for lvl in pair_levels {
		for i in 0..all.len() {
			for j in i + 1..all.len() {
				if all[i].0 != all[j].0 {
					trees.push(Tree { depth: 3, placements: vec![place(*lvl, &all[i]), place(*lvl, &all[j])] });
				}
			}
		}
	}
	// pairs in two different directories
	let repr: Vec<(String, bool)> = [
		(".git", true),
		(".git", false),
		("Cargo.toml", false),
		("Cargo.toml", true),
		("go.mod", false),
		("LICENSE", false),
		(".github", true),
		(".github", false),
		("_darcs", true),
		(".gitignore", false),
		("Makefile.pl", false),
		("build.zig", false),
	]
	.iter()
	.map(|(n, d)| (n.to_string(), *d))
	.collect();
	let cross = if thorough { &all } else { &repr };
	for (la, lb) in [(1, 2), (1, 3), (2, 3)] {
		for a in cross {
			for b in cross {
				trees.push(Tree { depth: 3, placements: vec![place(la, a), place(lb, b)] });
			}
		}
	}
	shuffle(&mut trees, seed);

	let scratch = Scratch::new("c20");
	let threads = std::env::var("VERIF_WORKERS").ok().and_then(|s| s.parse().ok()).unwrap_or(16);
	let mut out = par_map(&trees, threads, |chunk, ti| {
		let mut out = EnumOut::new(rule);
		let rt = tokio::runtime::Builder::new_current_thread().enable_all().build().expect("runtime");
		let root = scratch.path().join(format!("t{ti}"));
		for t in chunk {
			out.states += 1;
			match eval_tree(&rt, &root, t) {
				Ok(ev) => {
					out.evaluations += ev.evaluations;
					for o in &ev.outcomes {
						out.nontrivial_mark(o);
					}
					let is = |i: usize, lvl: usize, name: &str, dir: bool| t.placements.get(i).is_some_and(|p| p.level == lvl && p.name == name && p.dir == dir);
					let pick = t.depth == 3
						&& match t.placements.len() {
							1 => is(0, 2, "go.mod", false) || is(0, 2, "Cargo.toml", true) || is(0, 3, ".gitignore", false),
							2 => (is(0, 1, ".git", false) && is(1, 3, "Cargo.toml", false)) || (is(0, 2, ".hg", true) && is(1, 2, "package.json", false)),
							_ => false,
						};
					if pick {
						out.sample(json!({"tree": t, "observed": ev.summary, "violations": ev.violations.len()}));
					}
					for (k, d) in ev.violations {
						out.violate(k, d, json!({"kind": "tree", "tree": t}));
					}
				}
				Err(e) => out.machinery = Some(e),
			}
		}
		out
	});
	out.rule = rule.to_string();

	// classification, exhaustively over the enumeration
	for (_, name, _) in TYPES {
		out.states += 1;
		out.evaluations += 1;
		let v = eval_class(name);
		out.nontrivial_mark(("class", name));
		for (k, d) in v {
			out.violate(k, d, json!({"kind": "class", "type": name}));
		}
	}
	root_leg(&mut out);
	symlink_leg(&mut out);
	history_leg(&mut out);
	out.extra.insert("marker_names".into(), json!(names.len() - DECOYS.len()));
	out.extra.insert("decoy_names".into(), json!(DECOYS.len()));
	out.extra.insert("project_types".into(), json!(TYPES.len()));
	out.assumptions = vec![
		"marker -> type table from the ProjectType rustdoc; origin-only marker names from the crate's published list (the docs do not enumerate them)".into(),
		"symlinks to regular files as markers, relative / non-directory / missing start paths are not specified by the statement and not generated".into(),
		"tmpfs at /dev/shm; ancestors above the generated base are compared with a std::fs listing".into(),
	];
	out
}


// ---------------------------------------------------------------------------------------------
// filesystem-root leg: the chain of ancestors ends at "/", which can only carry markers
// inside a chroot. A child process of this binary chroots into a scratch tree and calls
// origins() / types() there; the parent compares with the placements. Skipped (with a note,
// never a verdict) when chroot(2) is not permitted.

const ROOT_CASES: [(&str, bool); 4] = [("", false), ("Cargo.toml", false), (".git", true), ("package.json", false)];

/// History leg: `origins()` and `types()` answer from the directory as it is *now*. A directory
/// is inspected, its markers are replaced, and it is inspected again; the second answers must
/// equal those for a fresh directory (never seen before) holding the same markers. Every
/// ordered pair of six markers, and every order of the two calls before the change.
fn history_leg(out: &mut EnumOut) {
	const MARKS: [(&str, bool); 6] = [("Cargo.toml", false), (".git", true), ("package.json", false), (".hg", true), ("go.mod", false), ("Gemfile", false)];
	let scratch = Scratch::new("c20-hist");
	let rt = tokio::runtime::Builder::new_current_thread().enable_all().build().expect("runtime");
	let root = std::fs::canonicalize(scratch.path()).unwrap_or_else(|_| scratch.path().to_path_buf());
	let place = |d: &Path, (m, is_dir): (&str, bool)| {
		if is_dir {
			let _ = std::fs::create_dir_all(d.join(m));
		} else {
			let _ = std::fs::write(d.join(m), b"");
		}
	};
	let unplace = |d: &Path, (m, is_dir): (&str, bool)| {
		if is_dir {
			let _ = std::fs::remove_dir_all(d.join(m));
		} else {
			let _ = std::fs::remove_file(d.join(m));
		}
	};
	let names = |t: std::collections::HashSet<project_origins::ProjectType>| {
		let mut v: Vec<String> = t.into_iter().map(|t| format!("{t:?}")).collect();
		v.sort();
		v
	};
	let below = |o: std::collections::HashSet<PathBuf>, base: &Path| {
		let mut v: Vec<String> = o.into_iter().filter_map(|p| p.strip_prefix(base).ok().map(|r| r.to_string_lossy().into_owned())).collect();
		v.sort();
		v
	};
	let mut cases = 0u64;
	let input = json!({"kind": "history-leg"});
	for (ai, a) in MARKS.iter().enumerate() {
		for (bi, b) in MARKS.iter().enumerate().map(|(i, b)| (i, Some(*b))).chain([(99, None)]) {
			if Some(*a) == b {
				continue;
			}
			// 0: origins only; 1: origins then types; 2: origins twice; 3: types then origins
			for before in 0..4 {
				cases += 1;
				out.states += 1;
				out.evaluations += 1;
				let base = root.join(format!("h{ai}-{bi}-{before}"));
				let (d, fresh) = (base.join("seen/proj"), base.join("fresh/proj"));
				let _ = std::fs::create_dir_all(d.join("sub"));
				let _ = std::fs::create_dir_all(fresh.join("sub"));
				place(&d, *a);
				match before {
					0 => {
						rt.block_on(project_origins::origins(d.join("sub")));
					}
					1 => {
						rt.block_on(project_origins::origins(d.join("sub")));
						rt.block_on(project_origins::types(&d));
					}
					2 => {
						rt.block_on(project_origins::origins(d.join("sub")));
						rt.block_on(project_origins::origins(&d));
					}
					_ => {
						rt.block_on(project_origins::types(&d));
						rt.block_on(project_origins::origins(d.join("sub")));
					}
				}
				unplace(&d, *a);
				if let Some(b) = b {
					place(&d, b);
					place(&fresh, b);
				}
				let what = format!("{} replaced by {}", a.0, b.map_or("nothing", |b| b.0));
				let (t_seen, t_fresh) = (names(rt.block_on(project_origins::types(&d))), names(rt.block_on(project_origins::types(&fresh))));
				if t_seen != t_fresh {
					out.violate(
						format!("C20/types/stale-after-change/{}", if t_seen.len() > t_fresh.len() || b.is_none() { "reports-a-removed-marker" } else { "misses-or-mixes" }),
						format!("{what} in a directory inspected before the change: types() = {t_seen:?}, but a fresh directory with the same content gives {t_fresh:?}"),
						input.clone(),
					);
				}
				let (o_seen, o_fresh) = (below(rt.block_on(project_origins::origins(d.join("sub"))), &base.join("seen")), below(rt.block_on(project_origins::origins(fresh.join("sub"))), &base.join("fresh")));
				if o_seen != o_fresh {
					out.violate(
						"C20/origins/stale-after-change".to_string(),
						format!("{what} in a directory inspected before the change: origins() below the base = {o_seen:?}, a fresh directory with the same content gives {o_fresh:?}"),
						input.clone(),
					);
				}
				if b.is_some() && (t_seen.is_empty() || o_seen.is_empty()) {
					// keeps the leg honest: the replacement marker must be recognised at all
					out.violate("C20/history-leg/marker-not-recognised".to_string(), format!("{what}: types() = {t_seen:?}, origins() = {o_seen:?}"), input.clone());
				}
				out.nontrivial_mark(("history", ai, bi, before));
				let _ = std::fs::remove_dir_all(&base);
			}
		}
	}
	out.extra.insert("history_leg".into(), json!(format!("{cases} (marker, replacement, earlier calls) cases: answers after a change equal those of a fresh directory")));
}

/// Symlinked-chain leg: the chain is the *given* path and its (lexical) ancestors. A start
/// path that runs through a symlinked directory must give origins on that spelled chain, not
/// on the chain of the link's target.
fn symlink_leg(out: &mut EnumOut) {
	let scratch = Scratch::new("c20-link");
	let rt = tokio::runtime::Builder::new_current_thread().enable_all().build().expect("runtime");
	let root = std::fs::canonicalize(scratch.path()).unwrap_or_else(|_| scratch.path().to_path_buf());
	let mut cases = 0u64;
	for (marker, is_dir) in [("Cargo.toml", false), (".git", true), ("package.json", false)] {
		let base = root.join(format!("t-{}", marker.trim_start_matches('.')));
		let real = base.join("real");
		let proj = real.join("proj");
		let link_parent = base.join("b");
		let _ = std::fs::create_dir_all(proj.join("sub"));
		let _ = std::fs::create_dir_all(&link_parent);
		// the target's own parent is marked too: a walk over the physical chain would report it
		let _ = std::fs::create_dir_all(real.join(".hg"));
		if is_dir {
			let _ = std::fs::create_dir_all(proj.join(marker));
		} else {
			let _ = std::fs::write(proj.join(marker), b"");
		}
		let link = link_parent.join("link");
		if std::os::unix::fs::symlink("../real/proj", &link).is_err() {
			out.extra.insert("symlinked_chain_leg".into(), json!("skipped: cannot create a symlink"));
			return;
		}
		for start in [link.clone(), link.join("sub")] {
			cases += 1;
			out.states += 1;
			out.evaluations += 1;
			let got = rt.block_on(project_origins::origins(&start));
			let chain: Vec<PathBuf> = start.ancestors().map(Path::to_path_buf).collect();
			let input = json!({"kind": "symlink-leg"});
			for g in &got {
				if !chain.contains(g) {
					out.violate(
						"C20/origins/spurious/outside-the-ancestor-chain/symlinked-directory",
						format!("origins({}) returned {}, which is neither the given path nor one of its ancestors (the path runs through the symlink {} -> ../real/proj)", start.display(), g.display(), link.display()),
						input.clone(),
					);
				}
			}
			if !got.contains(&link) {
				out.violate(
					format!("C20/origins/missed/symlinked-directory/{marker}"),
					format!("origins({}) = {:?}: {} holds {marker} and is on the chain of the given path", start.display(), got, link.display()),
					input.clone(),
				);
			}
			if got.contains(&link_parent) || got.contains(&link.join("sub")) {
				out.violate("C20/origins/spurious/unmarked-directory/symlinked-directory", format!("origins({}) = {:?}", start.display(), got), input);
			}
		}
	}
	out.extra.insert("symlinked_chain_leg".into(), json!(format!("{cases} start paths through a symlinked directory")));
}

/// Entry point of the chrooted child: `h-enum C20 --chroot-leg <dir>`.
pub fn chroot_child(dir: &str) -> i32 {
	extern "C" {
		fn chroot(path: *const std::os::raw::c_char) -> i32;
		fn chdir(path: *const std::os::raw::c_char) -> i32;
	}
	let c = std::ffi::CString::new(dir).expect("path");
	let slash = std::ffi::CString::new("/").expect("path");
	if unsafe { chroot(c.as_ptr()) } != 0 || unsafe { chdir(slash.as_ptr()) } != 0 {
		println!("CHROOT-UNAVAILABLE");
		return 0;
	}
	let rt = tokio::runtime::Builder::new_current_thread().enable_all().build().expect("rt");
	let mut res = serde_json::Map::new();
	for start in ["/work/proj/src", "/work/proj", "/work", "/"] {
		let mut o: Vec<String> = rt.block_on(project_origins::origins(start)).into_iter().map(|p| p.to_string_lossy().to_string()).collect();
		o.sort();
		res.insert(start.to_string(), json!(o));
	}
	let mut t: Vec<String> = rt.block_on(project_origins::types("/")).into_iter().map(|t| format!("{t:?}")).collect();
	t.sort();
	res.insert("types(/)".to_string(), json!(t));
	println!("CHROOT-RESULT {}", Value::Object(res));
	0
}

fn root_leg(out: &mut EnumOut) {
	let scratch = Scratch::new("c20root");
	let exe = match std::env::current_exe() {
		Ok(e) => e,
		Err(_) => return,
	};
	let mut ran = 0u64;
	for (root_marker, root_is_dir) in ROOT_CASES {
		for proj_marker in ["", ".git"] {
			let r = scratch.path().join(format!("r-{}-{}", if root_marker.is_empty() { "none" } else { root_marker }, if proj_marker.is_empty() { "none" } else { "git" }));
			let _ = std::fs::remove_dir_all(&r);
			if std::fs::create_dir_all(r.join("work/proj/src")).is_err() {
				return;
			}
			if !root_marker.is_empty() {
				if root_is_dir {
					let _ = std::fs::create_dir_all(r.join(root_marker));
				} else {
					let _ = std::fs::write(r.join(root_marker), "x");
				}
			}
			if !proj_marker.is_empty() {
				let _ = std::fs::create_dir_all(r.join("work/proj").join(proj_marker));
			}
			let o = std::process::Command::new(&exe).args(["C20", "--chroot-leg", &r.to_string_lossy()]).output();
			let Ok(o) = o else { continue };
			let text = String::from_utf8_lossy(&o.stdout).to_string();
			if text.contains("CHROOT-UNAVAILABLE") {
				out.extra.insert("filesystem_root_leg".into(), json!("skipped: chroot(2) not permitted"));
				return;
			}
			let Some(line) = text.lines().find(|l| l.starts_with("CHROOT-RESULT ")) else {
				out.extra.insert("filesystem_root_leg".into(), json!("skipped: the chrooted child gave no result"));
				return;
			};
			let Ok(v) = serde_json::from_str::<Value>(&line["CHROOT-RESULT ".len()..]) else { continue };
			ran += 1;
			for start in ["/work/proj/src", "/work/proj", "/work", "/"] {
				out.states += 1;
				out.evaluations += 1;
				// expected: the marked directories among the start and its ancestors, "/" included
				let mut want: Vec<String> = vec![];
				let chain: Vec<&str> = match start {
					"/work/proj/src" => vec!["/work/proj/src", "/work/proj", "/work", "/"],
					"/work/proj" => vec!["/work/proj", "/work", "/"],
					"/work" => vec!["/work", "/"],
					_ => vec!["/"],
				};
				for d in chain {
					if (d == "/" && !root_marker.is_empty()) || (d == "/work/proj" && !proj_marker.is_empty()) {
						want.push(d.to_string());
					}
				}
				want.sort();
				let got: Vec<String> = v[start].as_array().map(|a| a.iter().filter_map(|x| x.as_str().map(str::to_string)).collect()).unwrap_or_default();
				out.nontrivial_mark(("root-leg", root_marker, proj_marker, start, got.clone()));
				if got != want {
					let what = if want.contains(&"/".to_string()) && !got.contains(&"/".to_string()) { "missed-filesystem-root" } else if got.len() > want.len() { "spurious" } else { "missed" };
					out.violate(
						format!("C20/origins/{what}/root-marker-{}", if root_marker.is_empty() { "none" } else { root_marker }),
						format!("in a chroot with {root_marker:?} in / and {proj_marker:?} in /work/proj: origins({start}) = {got:?}, expected {want:?}"),
						json!({"kind": "root-leg", "root_marker": root_marker, "proj_marker": proj_marker, "start": start}),
					);
				}
			}
		}
	}
	out.extra.insert("filesystem_root_leg".into(), json!(format!("{ran} chrooted trees x 4 start paths")));
}
