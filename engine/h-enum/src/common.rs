//! Shared plumbing for the bounded-exhaustive enumeration checks (engine ENUM).
//!
//! Each check enumerates a finite grammar completely, runs the real function on every
//! element and compares with a reference model or a law. `EnumOut` is what a check hands
//! back; `finish` turns it into evidence + exit code through the same code path as DEX.

use std::{
	collections::HashSet,
	hash::{Hash, Hasher},
	time::Instant,
};

use dex::orch::{self, Report, Tier, ViolationRec};
use serde_json::{json, Map, Value};

pub struct Case {
	/// stable classification of what failed (clause + the specific input class)
	pub key: String,
	pub detail: String,
	/// everything needed to re-run this one case
	pub input: Value,
}

#[derive(Default)]
pub struct EnumOut {
	/// distinct configurations / inputs enumerated
	pub states: u64,
	/// (configuration, probe) evaluations of the real code
	pub evaluations: u64,
	/// hashes of the distinct non-trivial outcomes (by the check's own rule)
	pub nontrivial: HashSet<u64>,
	pub samples: Vec<Value>,
	pub violations: Vec<Case>,
	pub caps: Vec<String>,
	pub rule: String,
	pub assumptions: Vec<String>,
	pub extra: Map<String, Value>,
	pub machinery: Option<String>,
}

impl EnumOut {
	pub fn new(rule: &str) -> Self {
		Self { rule: rule.to_string(), ..Default::default() }
	}
	pub fn nontrivial_mark(&mut self, h: impl Hash) {
		let mut s = std::collections::hash_map::DefaultHasher::new();
		h.hash(&mut s);
		self.nontrivial.insert(s.finish());
	}
	/// Record a violation; only the first case of each key is kept (with a count).
	pub fn violate(&mut self, key: impl Into<String>, detail: impl Into<String>, input: Value) {
		let key = key.into();
		if let Some(c) = self.violations.iter_mut().find(|c| c.key == key) {
			let n = c.input.get("_count").and_then(Value::as_u64).unwrap_or(1) + 1;
			if let Some(o) = c.input.as_object_mut() {
				o.insert("_count".into(), json!(n));
			}
			return;
		}
		let mut input = input;
		if let Some(o) = input.as_object_mut() {
			o.insert("_count".into(), json!(1));
		}
		self.violations.push(Case { key, detail: detail.into(), input });
	}
	pub fn sample(&mut self, v: Value) {
		if self.samples.len() < 6 {
			self.samples.push(v);
		}
	}
	pub fn merge(&mut self, o: EnumOut) {
		self.states += o.states;
		self.evaluations += o.evaluations;
		self.nontrivial.extend(o.nontrivial);
		for s in o.samples {
			self.sample(s);
		}
		for c in o.violations {
			let n = c.input.get("_count").and_then(Value::as_u64).unwrap_or(1);
			if let Some(e) = self.violations.iter_mut().find(|e| e.key == c.key) {
				let m = e.input.get("_count").and_then(Value::as_u64).unwrap_or(1) + n;
				if let Some(ob) = e.input.as_object_mut() {
					ob.insert("_count".into(), json!(m));
				}
			} else {
				self.violations.push(c);
			}
		}
		self.caps.extend(o.caps);
		for (k, v) in o.extra {
			match (self.extra.get(&k).and_then(Value::as_u64), v.as_u64()) {
				(Some(a), Some(b)) => {
					self.extra.insert(k, json!(a + b));
				}
				_ => {
					self.extra.insert(k, v);
				}
			}
		}
		if self.machinery.is_none() {
			self.machinery = o.machinery;
		}
	}
}

pub fn finish(property: &str, tier: Tier, seed: u64, t0: Instant, out: EnumOut) -> i32 {
	let mut cov = Map::new();
	cov.insert("states".into(), json!(out.states));
	cov.insert("transitions".into(), json!(out.evaluations));
	cov.insert("traces_validated_against_impl".into(), json!(out.evaluations));
	cov.insert("evaluations".into(), json!(out.evaluations));
	cov.insert("distinct_nontrivial".into(), json!(out.nontrivial.len()));
	cov.insert("rule".into(), json!(out.rule));
	cov.insert("samples".into(), json!(out.samples));
	cov.insert("exhaustive".into(), json!(out.caps.is_empty()));
	cov.insert("caps_hit".into(), json!(out.caps));
	for (k, v) in out.extra {
		cov.insert(k, v);
	}
	let violations = out
		.violations
		.into_iter()
		.map(|c| ViolationRec {
			property: property.to_string(),
			count: c.input.get("_count").and_then(Value::as_u64).unwrap_or(1),
			key: c.key,
			detail: c.detail,
			harness: "h-enum".into(),
			scenario: c.input,
			bounds: None,
			choices: vec![],
			log: vec![],
		})
		.collect();
	orch::finish(Report {
		property: property.to_string(),
		tier,
		seed,
		wall_s: t0.elapsed().as_secs_f64(),
		coverage: cov,
		assumptions: out.assumptions,
		violations,
		machinery: out.machinery,
	})
}

/// Scratch directory on tmpfs, removed on drop.
pub struct Scratch(pub std::path::PathBuf);
impl Scratch {
	pub fn new(tag: &str) -> Self {
		let base = if std::path::Path::new("/dev/shm").is_dir() { "/dev/shm" } else { "/tmp" };
		let p = std::path::PathBuf::from(format!("{base}/verif-{tag}-{}", std::process::id()));
		let _ = std::fs::remove_dir_all(&p);
		std::fs::create_dir_all(&p).expect("scratch dir");
		Scratch(p)
	}
	pub fn path(&self) -> &std::path::Path {
		&self.0
	}
}
impl Drop for Scratch {
	fn drop(&mut self) {
		let _ = std::fs::remove_dir_all(&self.0);
	}
}

/// Run `f` over `items` on up to `threads` OS threads and merge the outputs.
pub fn par_map<T: Sync, F>(items: &[T], threads: usize, f: F) -> EnumOut
where
	F: Fn(&[T], usize) -> EnumOut + Sync,
{
	let n = threads.max(1).min(items.len().max(1));
	let chunk = items.len().div_ceil(n).max(1);
	let mut merged: Option<EnumOut> = None;
	std::thread::scope(|s| {
		let hs: Vec<_> = items.chunks(chunk).enumerate().map(|(i, c)| { let f = &f; s.spawn(move || f(c, i)) }).collect();
		for h in hs {
			match h.join() {
				Ok(o) => match merged.as_mut() {
					None => merged = Some(o),
					Some(m) => m.merge(o),
				},
				Err(_) => {
					let mut e = EnumOut::default();
					e.machinery = Some("worker thread panicked".into());
					match merged.as_mut() {
						None => merged = Some(e),
						Some(m) => m.merge(e),
					}
				}
			}
		}
	});
	merged.unwrap_or_default()
}
