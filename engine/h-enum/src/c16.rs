//! C16 — events survive a JSON round trip, the format is the documented one, and the tag
//! decoder is total over known-kind objects with missing / extra / contradictory fields.
//!
//! Part R (round trip + format). Tag alphabet, enumerated completely:
//!   all 41 `FileEventKind` values (names composed here from the variant names, not taken
//!   from `Debug` nor from the decoder's table); the 7 first-class signals and `Custom(n)` for
//!   n in {0..=64, 66, i32::MIN, i32::MAX}; `ProcessCompletion` of None / Success / Continued /
//!   ExitError(+-1, 255, 256, i32 MIN/MAX, i64 MIN/MAX) / ExitSignal(every signal above) /
//!   ExitStop and Exception(+-1, 255, 256, i32 MIN/MAX); all 6 `Source`s; `Keyboard::Eof`;
//!   `Process(0, 1, 123, u32::MAX)`; `Path` over {"/", "/a b", "/é/ü", "rel/x", ""} x
//!   {no type, file, dir, symlink, other}; `Unknown`.
//!   Events = every tag sequence of length <= 2 (thorough <= 3) x metadata in {none, one key,
//!   two keys inserted in either order}.
//!   Oracle: `from_str(to_string(e)) == e`; the text parsed as generic JSON has only the
//!   documented members (`tags`, `metadata`; each may be omitted when empty) and every tag
//!   object equals the documented object for that tag (doc/watchexec.1.md "--emit-events-to",
//!   signal names as pinned by crates/events/tests/snapshots). The representation of
//!   `Tag::Unknown` is not documented: only its round trip is demanded.
//!
//! Part D (decoder totality, reference = JsonTagDecoder below). Every JSON object formed by
//!   kind in 8 kinds x each of the 10 optional members in {absent, valid value(s),
//!   contradictory value(s)} x {no unknown member, one unknown member}; plus, in both tiers,
//!   the complete `simple` x `full` table (6 x 43) under every kind.
//!   Oracle: the object parses (never an error) and gives the kind's tag built from exactly
//!   the given values when the required members are present and consistent, `Tag::Unknown`
//!   otherwise, and never a tag of another kind.
//!
//! Deviations from DESIGN section 7 / deliberate exclusions (to demand no more than the statement):
//!   * member value sets are not uniformly 3 (resp. 4) wide: `disposition` takes all 8 states
//!     and `code` 5 (thorough 9) because consistency is defined across these two; `keycode`
//!     has a single legal value. quick = 3.7e6 objects, thorough = 9.3e7.
//!   * ill-typed or out-of-vocabulary values (`"pid": -1`, `"filetype": "bogus"`) are neither
//!     missing, extra nor contradictory: they are outside the statement. They are probed and
//!     only counted (`ill_typed_*` in the evidence), never reported.
//!   * where "contradictory" is debatable the verdict is loosened to "Unknown or the tag of
//!     that kind", never another kind, never an error: `simple` disagreeing with `full`,
//!     `full` outside the vocabulary, a `code`/`signal` member next to a disposition that has
//!     none, and the two lossy shapes the repository's own snapshot pins (`fs` with only
//!     `simple`, `completion` without `disposition`).
//!   * key order / byte stability of the metadata object is not demanded (not in the statement).

use std::{
	collections::HashMap,
	num::{NonZeroI32, NonZeroI64},
	path::PathBuf,
	time::{Duration, Instant},
};

use dex::orch::Tier;
use serde_json::{json, Map, Value};
use watchexec_events::{
	filekind::{
		AccessKind, AccessMode, CreateKind, DataChange, FileEventKind, MetadataKind, ModifyKind,
		RemoveKind, RenameMode,
	},
	Event, FileType, Keyboard, ProcessEnd, Source, Tag,
};
use watchexec_signals::Signal;

use crate::common::{par_map, EnumOut};

// ---------------------------------------------------------------------------------------
// documented vocabulary (written from doc/watchexec.1.md, the type docs and the snapshots)

/// (documented "full" name, value, documented "simple" class)
pub(crate) fn fs_table() -> Vec<(String, FileEventKind, &'static str)> {
	use FileEventKind as K;
	let modes = [
		("Any", AccessMode::Any),
		("Execute", AccessMode::Execute),
		("Read", AccessMode::Read),
		("Write", AccessMode::Write),
		("Other", AccessMode::Other),
	];
	let mut t: Vec<(String, FileEventKind, &'static str)> = vec![("Any".into(), K::Any, "other")];
	t.push(("Access(Any)".into(), K::Access(AccessKind::Any), "access"));
	t.push(("Access(Read)".into(), K::Access(AccessKind::Read), "access"));
	for (n, m) in modes {
		t.push((format!("Access(Open({n}))"), K::Access(AccessKind::Open(m)), "access"));
	}
	for (n, m) in modes {
		t.push((format!("Access(Close({n}))"), K::Access(AccessKind::Close(m)), "access"));
	}
	t.push(("Access(Other)".into(), K::Access(AccessKind::Other), "access"));
	for (n, c) in [("Any", CreateKind::Any), ("File", CreateKind::File), ("Folder", CreateKind::Folder), ("Other", CreateKind::Other)] {
		t.push((format!("Create({n})"), K::Create(c), "create"));
	}
	t.push(("Modify(Any)".into(), K::Modify(ModifyKind::Any), "modify"));
	for (n, d) in [("Any", DataChange::Any), ("Size", DataChange::Size), ("Content", DataChange::Content), ("Other", DataChange::Other)] {
		t.push((format!("Modify(Data({n}))"), K::Modify(ModifyKind::Data(d)), "modify"));
	}
	for (n, m) in [
		("Any", MetadataKind::Any),
		("AccessTime", MetadataKind::AccessTime),
		("WriteTime", MetadataKind::WriteTime),
		("Permissions", MetadataKind::Permissions),
		("Ownership", MetadataKind::Ownership),
		("Extended", MetadataKind::Extended),
		("Other", MetadataKind::Other),
	] {
		t.push((format!("Modify(Metadata({n}))"), K::Modify(ModifyKind::Metadata(m)), "modify"));
	}
	for (n, r) in [("Any", RenameMode::Any), ("To", RenameMode::To), ("From", RenameMode::From), ("Both", RenameMode::Both), ("Other", RenameMode::Other)] {
		t.push((format!("Modify(Name({n}))"), K::Modify(ModifyKind::Name(r)), "modify"));
	}
	t.push(("Modify(Other)".into(), K::Modify(ModifyKind::Other), "modify"));
	for (n, r) in [("Any", RemoveKind::Any), ("File", RemoveKind::File), ("Folder", RemoveKind::Folder), ("Other", RemoveKind::Other)] {
		t.push((format!("Remove({n})"), K::Remove(r), "remove"));
	}
	t.push(("Other".into(), K::Other, "other"));
	t
}

fn simple_any(s: &str) -> Option<FileEventKind> {
	Some(match s {
		"access" => FileEventKind::Access(AccessKind::Any),
		"create" => FileEventKind::Create(CreateKind::Any),
		"modify" => FileEventKind::Modify(ModifyKind::Any),
		"remove" => FileEventKind::Remove(RemoveKind::Any),
		"other" => FileEventKind::Other,
		_ => return None,
	})
}

/// The documented class of a value, by its constructor (independent of the table above).
fn class_of(k: &FileEventKind) -> &'static str {
	match k {
		FileEventKind::Access(_) => "access",
		FileEventKind::Create(_) => "create",
		FileEventKind::Modify(_) => "modify",
		FileEventKind::Remove(_) => "remove",
		_ => "other",
	}
}

const NAMED_SIGNALS: [(&str, Signal); 7] = [
	("SIGHUP", Signal::Hangup),
	("SIGINT", Signal::Interrupt),
	("SIGQUIT", Signal::Quit),
	("SIGKILL", Signal::ForceStop),
	("SIGUSR1", Signal::User1),
	("SIGUSR2", Signal::User2),
	("SIGTERM", Signal::Terminate),
];

/// JSON literal (name or number) -> signal
fn sig_of(v: &Value) -> Option<Signal> {
	if let Some(s) = v.as_str() {
		return NAMED_SIGNALS.iter().find(|(n, _)| *n == s).map(|(_, s)| *s);
	}
	v.as_i64().and_then(|n| i32::try_from(n).ok()).map(Signal::Custom)
}

const FILETYPES: [(&str, FileType); 4] = [("file", FileType::File), ("dir", FileType::Dir), ("symlink", FileType::Symlink), ("other", FileType::Other)];
const SOURCES: [(&str, Source); 6] = [
	("filesystem", Source::Filesystem),
	("keyboard", Source::Keyboard),
	("mouse", Source::Mouse),
	("os", Source::Os),
	("time", Source::Time),
	("internal", Source::Internal),
];

fn filetype_of(s: &str) -> Option<FileType> {
	FILETYPES.iter().find(|(n, _)| *n == s).map(|(_, f)| *f)
}
fn source_of(s: &str) -> Option<Source> {
	SOURCES.iter().find(|(n, _)| *n == s).map(|(_, f)| *f)
}

// ---------------------------------------------------------------------------------------
// Part R: alphabet

struct Sym {
	/// self-describing spec (what `replay` rebuilds the tag from)
	spec: Value,
	tag: Tag,
	/// documented JSON object; None = representation not documented (Tag::Unknown)
	json: Option<Value>,
	class: String,
}

fn build(spec: &Value, fs: &[(String, FileEventKind, &'static str)]) -> Option<Sym> {
	let (tag, js, class): (Tag, Option<Value>, String) = match spec["t"].as_str()? {
		"fs" => {
			let name = spec["full"].as_str()?;
			let (_, k, simple) = fs.iter().find(|(n, _, _)| n == name)?;
			(Tag::FileEventKind(*k), Some(json!({"kind": "fs", "simple": simple, "full": name})), format!("fs/{name}"))
		}
		"signal" => {
			let s = sig_of(&spec["sig"])?;
			let class = spec["sig"].as_str().map_or("signal/custom".to_string(), |n| format!("signal/{n}"));
			(Tag::Signal(s), Some(json!({"kind": "signal", "signal": spec["sig"]})), class)
		}
		"completion" => {
			let d = spec["d"].as_str()?;
			let code = spec["code"].as_i64();
			let end = match d {
				"unknown" => None,
				"success" => Some(ProcessEnd::Success),
				"continued" => Some(ProcessEnd::Continued),
				"error" => Some(ProcessEnd::ExitError(NonZeroI64::new(code?)?)),
				"stop" => Some(ProcessEnd::ExitStop(NonZeroI32::new(i32::try_from(code?).ok()?)?)),
				"exception" => Some(ProcessEnd::Exception(NonZeroI32::new(i32::try_from(code?).ok()?)?)),
				"signal" => Some(ProcessEnd::ExitSignal(sig_of(&spec["sig"])?)),
				_ => return None,
			};
			let mut o = Map::new();
			o.insert("kind".into(), json!("completion"));
			o.insert("disposition".into(), json!(d));
			match d {
				"error" | "stop" | "exception" => {
					o.insert("code".into(), json!(code?));
				}
				"signal" => {
					o.insert("signal".into(), spec["sig"].clone());
				}
				_ => {}
			}
			(Tag::ProcessCompletion(end), Some(Value::Object(o)), format!("completion/{d}"))
		}
		"path" => {
			let p = spec["path"].as_str()?;
			let mut o = Map::new();
			o.insert("kind".into(), json!("path"));
			o.insert("absolute".into(), json!(p));
			let ft = match spec["ft"].as_str() {
				Some(f) => {
					o.insert("filetype".into(), json!(f));
					Some(filetype_of(f)?)
				}
				None => None,
			};
			(Tag::Path { path: PathBuf::from(p), file_type: ft }, Some(Value::Object(o)), "path".into())
		}
		"source" => {
			let v = spec["v"].as_str()?;
			(Tag::Source(source_of(v)?), Some(json!({"kind": "source", "source": v})), format!("source/{v}"))
		}
		"keyboard" => (Tag::Keyboard(Keyboard::Eof), Some(json!({"kind": "keyboard", "keycode": "eof"})), "keyboard".into()),
		"process" => {
			let pid = u32::try_from(spec["pid"].as_u64()?).ok()?;
			(Tag::Process(pid), Some(json!({"kind": "process", "pid": pid})), "process".into())
		}
		"unknown" => (Tag::Unknown, None, "unknown".into()),
		_ => return None,
	};
	Some(Sym { spec: spec.clone(), tag, json: js, class })
}

fn signal_literals() -> Vec<Value> {
	let mut v: Vec<Value> = NAMED_SIGNALS.iter().map(|(n, _)| json!(n)).collect();
	for n in 0..=64 {
		v.push(json!(n));
	}
	for n in [66, i32::MIN, i32::MAX] {
		v.push(json!(n));
	}
	v
}

fn alphabet_specs(fs: &[(String, FileEventKind, &'static str)]) -> Vec<Value> {
	let mut a = vec![];
	for (name, _, _) in fs {
		a.push(json!({"t": "fs", "full": name}));
	}
	let sigs = signal_literals();
	for s in &sigs {
		a.push(json!({"t": "signal", "sig": s}));
	}
	for d in ["unknown", "success", "continued"] {
		a.push(json!({"t": "completion", "d": d}));
	}
	let i32s: [i64; 6] = [1, -1, 255, 256, i32::MIN.into(), i32::MAX.into()];
	for c in i32s.iter().copied().chain([i64::MIN, i64::MAX]) {
		a.push(json!({"t": "completion", "d": "error", "code": c}));
	}
	for s in &sigs {
		a.push(json!({"t": "completion", "d": "signal", "sig": s}));
	}
	for d in ["stop", "exception"] {
		for c in i32s {
			a.push(json!({"t": "completion", "d": d, "code": c}));
		}
	}
	for (n, _) in SOURCES {
		a.push(json!({"t": "source", "v": n}));
	}
	a.push(json!({"t": "keyboard"}));
	for pid in [0u32, 1, 123, u32::MAX] {
		a.push(json!({"t": "process", "pid": pid}));
	}
	for p in ["/", "/a b", "/é/ü", "rel/x", ""] {
		a.push(json!({"t": "path", "path": p, "ft": null}));
		for (f, _) in FILETYPES {
			a.push(json!({"t": "path", "path": p, "ft": f}));
		}
	}
	a.push(json!({"t": "unknown"}));
	a
}

const N_META: usize = 4;
fn metadata(variant: usize) -> (HashMap<String, Vec<String>>, Value) {
	let mut m = HashMap::new();
	let a = ("a-key".to_string(), vec!["1".to_string(), "2".to_string()]);
	let b = ("é".to_string(), vec!["ü".to_string()]);
	match variant {
		1 => {
			m.insert("notify-backend".to_string(), vec!["inotify".to_string()]);
			(m, json!({"notify-backend": ["inotify"]}))
		}
		2 => {
			m.insert(a.0, a.1);
			m.insert(b.0, b.1);
			(m, json!({"a-key": ["1", "2"], "é": ["ü"]}))
		}
		3 => {
			m.insert(b.0, b.1);
			m.insert(a.0, a.1);
			(m, json!({"a-key": ["1", "2"], "é": ["ü"]}))
		}
		_ => (m, json!({})),
	}
}

/// One event through the real serialiser and parser. Returns (violations, serialised text).
fn eval_roundtrip(tags: &[&Sym], meta: usize) -> (Vec<(String, String)>, Option<String>) {
	let mut v = vec![];
	let (md, md_json) = metadata(meta);
	let ev = Event { tags: tags.iter().map(|s| s.tag.clone()).collect(), metadata: md };
	let first_class = || tags.first().map_or("empty-event".to_string(), |s| s.class.clone());
	let text = match serde_json::to_string(&ev) {
		Ok(t) => t,
		Err(e) => {
			v.push((format!("C16/serialise-failed/{}", first_class()), format!("{ev:?} does not serialise: {e}")));
			return (v, None);
		}
	};
	match serde_json::from_str::<Event>(&text) {
		Err(e) => v.push((format!("C16/roundtrip/parse-failed/{}", first_class()), format!("{ev:?} serialises to {text} which does not parse back: {e}"))),
		Ok(back) if back == ev => {}
		Ok(back) => {
			let culprit = if back.tags.len() != ev.tags.len() {
				"tag-count".to_string()
			} else if let Some(i) = (0..ev.tags.len()).find(|&i| back.tags[i] != ev.tags[i]) {
				tags[i].class.clone()
			} else {
				"metadata".to_string()
			};
			v.push((format!("C16/roundtrip/{culprit}"), format!("{ev:?} serialises to {text} which parses back as {back:?}")));
		}
	}
	// the other ways a consumer can parse the same JSON: from a reader (strings are not
	// borrowed from the input), from an already parsed value, from bytes
	let others: [(&str, Result<Event, String>); 3] = [
		("from_reader", serde_json::from_reader::<_, Event>(text.as_bytes()).map_err(|e| e.to_string())),
		("from_value", serde_json::from_str::<Value>(&text).and_then(serde_json::from_value::<Event>).map_err(|e| e.to_string())),
		("from_slice", serde_json::from_slice::<Event>(text.as_bytes()).map_err(|e| e.to_string())),
	];
	for (how, r) in others {
		match r {
			Ok(back) if back == ev => {}
			Ok(back) => v.push((format!("C16/roundtrip/{how}/differs/{}", first_class()), format!("{text} parsed with {how} gives {back:?}, not {ev:?}"))),
			Err(e) => v.push((format!("C16/roundtrip/{how}/parse-failed/{}", first_class()), format!("{ev:?} serialises to {text} which {how} does not parse: {e}"))),
		}
	}
	// the documented shape, on the text as any JSON consumer sees it
	match serde_json::from_str::<Value>(&text) {
		Ok(Value::Object(o)) => {
			for k in o.keys() {
				if k != "tags" && k != "metadata" {
					v.push(("C16/format/event/undocumented-member".into(), format!("event object has member {k:?}: {text}")));
				}
			}
			match o.get("tags") {
				None if tags.is_empty() => {}
				Some(Value::Array(arr)) if arr.len() == tags.len() => {
					for (i, s) in tags.iter().enumerate() {
						match &s.json {
							Some(want) if &arr[i] != want => {
								v.push((format!("C16/format/{}", s.class), format!("{:?} is written as {} but the documented object is {want}", s.tag, arr[i])));
							}
							None if !arr[i].is_object() => v.push((format!("C16/format/{}", s.class), format!("{:?} is written as {}, not an object", s.tag, arr[i]))),
							_ => {}
						}
					}
				}
				other => v.push(("C16/format/event/tags".into(), format!("`tags` of an event with {} tags is {other:?}", tags.len()))),
			}
			match o.get("metadata") {
				None if meta == 0 => {}
				Some(m) if *m == md_json => {}
				other => v.push(("C16/format/event/metadata".into(), format!("`metadata` is {other:?}, expected {md_json}"))),
			}
		}
		other => v.push(("C16/format/event/not-an-object".into(), format!("serialised event is {other:?}"))),
	}
	(v, Some(text))
}

// ---------------------------------------------------------------------------------------
// Part D: JsonTagDecoder (reference) and the object grammar

const KINDS: [&str; 8] = ["none", "path", "fs", "source", "keyboard", "process", "signal", "completion"];
const FIELDS: [&str; 10] = ["absolute", "filetype", "simple", "full", "source", "keycode", "pid", "signal", "disposition", "code"];
const EXTRA_MEMBER: &str = "x-not-a-documented-member";

/// What the statement allows as the result of parsing one object.
struct Expect {
	main: Tag,
	/// Tag::Unknown is acceptable as well (debatable contradiction / lossy shape)
	alt_unknown: bool,
	/// any FileEventKind whose class is listed is acceptable as well
	fs_loose: Option<Vec<&'static str>>,
	/// stable description of the input class
	class: String,
}

fn kind_discriminant(kind: &str) -> &'static str {
	match kind {
		"path" => "Path",
		"fs" => "FileEventKind",
		"source" => "Source",
		"keyboard" => "Keyboard",
		"process" => "Process",
		"signal" => "Signal",
		"completion" => "ProcessCompletion",
		_ => "Unknown",
	}
}

/// The reference decoder: `f[i]` is the value of member FIELDS[i] (None = absent).
fn model(kind: &str, f: &[Option<&Value>; 10], fs: &[(String, FileEventKind, &'static str)]) -> Expect {
	let [absolute, filetype, simple, full, source, keycode, pid, signal, disposition, code] = *f;
	let exact = |main: Tag, class: String| Expect { main, alt_unknown: false, fs_loose: None, class };
	let presence = |name: &str, present: bool| if present { name.to_string() } else { format!("no-{name}") };
	match kind {
		"path" => match absolute.and_then(Value::as_str) {
			Some(p) => exact(
				Tag::Path { path: PathBuf::from(p), file_type: filetype.and_then(Value::as_str).and_then(filetype_of) },
				"absolute".into(),
			),
			None => exact(Tag::Unknown, "no-absolute".into()),
		},
		"fs" => {
			let s = simple.and_then(Value::as_str);
			let fl = full.and_then(Value::as_str);
			let looked = fl.map(|n| fs.iter().find(|(name, _, _)| name == n));
			let sname = s.unwrap_or("absent");
			match (s, looked) {
				(None, None) => exact(Tag::Unknown, "no-simple/no-full".into()),
				// only the lossy class is given: pinned by the repository's asymmetric snapshot
				(Some(sv), None) => Expect {
					main: simple_any(sv).map_or(Tag::Unknown, Tag::FileEventKind),
					alt_unknown: true,
					fs_loose: None,
					class: format!("simple-{sname}/no-full"),
				},
				(None, Some(Some((_, k, _)))) => exact(Tag::FileEventKind(*k), "no-simple/full-in-vocabulary".into()),
				(Some(sv), Some(Some((_, k, c)))) if *c == sv => exact(Tag::FileEventKind(*k), "simple-agrees-with-full".into()),
				(Some(sv), Some(Some((_, k, c)))) => Expect {
					main: Tag::FileEventKind(*k),
					alt_unknown: true,
					fs_loose: Some(vec![*c, simple_any(sv).as_ref().map_or("other", class_of)]),
					class: "simple-contradicts-full".into(),
				},
				(sv, Some(None)) => Expect {
					main: Tag::Unknown,
					alt_unknown: true,
					fs_loose: Some(vec!["other", sv.and_then(simple_any).as_ref().map_or("other", class_of)]),
					class: format!("simple-{sname}/full-out-of-vocabulary"),
				},
			}
		}
		"source" => match source.and_then(Value::as_str).and_then(source_of) {
			Some(s) => exact(Tag::Source(s), "source".into()),
			None => exact(Tag::Unknown, "no-source".into()),
		},
		"keyboard" => match keycode.and_then(Value::as_str) {
			Some("eof") => exact(Tag::Keyboard(Keyboard::Eof), "keycode".into()),
			_ => exact(Tag::Unknown, "no-keycode".into()),
		},
		"process" => match pid.and_then(Value::as_u64).and_then(|p| u32::try_from(p).ok()) {
			Some(p) => exact(Tag::Process(p), "pid".into()),
			None => exact(Tag::Unknown, "no-pid".into()),
		},
		"signal" => match signal.and_then(sig_of) {
			Some(s) => exact(Tag::Signal(s), "signal".into()),
			None => exact(Tag::Unknown, "no-signal".into()),
		},
		"completion" => {
			let d = disposition.and_then(Value::as_str);
			let c = code.and_then(Value::as_i64);
			let sg = signal.and_then(sig_of);
			let code_class = match c {
				None => "absent",
				Some(0) => "zero",
				Some(n) if i32::try_from(n).is_ok() => "i32",
				Some(_) => "wide",
			};
			let (end, uses_code, uses_signal): (Option<Tag>, bool, bool) = match d {
				None | Some("unknown") => (Some(Tag::ProcessCompletion(None)), false, false),
				Some("success") => (Some(Tag::ProcessCompletion(Some(ProcessEnd::Success))), false, false),
				Some("continued") => (Some(Tag::ProcessCompletion(Some(ProcessEnd::Continued))), false, false),
				Some("error") => (c.and_then(NonZeroI64::new).map(|n| Tag::ProcessCompletion(Some(ProcessEnd::ExitError(n)))), true, false),
				Some("stop") => (
					c.and_then(|n| i32::try_from(n).ok()).and_then(NonZeroI32::new).map(|n| Tag::ProcessCompletion(Some(ProcessEnd::ExitStop(n)))),
					true,
					false,
				),
				Some("exception") => (
					c.and_then(|n| i32::try_from(n).ok()).and_then(NonZeroI32::new).map(|n| Tag::ProcessCompletion(Some(ProcessEnd::Exception(n)))),
					true,
					false,
				),
				Some("signal") => (sg.map(|s| Tag::ProcessCompletion(Some(ProcessEnd::ExitSignal(s)))), false, true),
				Some(_) => (None, false, false),
			};
			// a member this disposition has no use for may be read as a contradiction;
			// a completion object without a disposition is lossy (snapshot pins "unknown")
			let stray = (c.is_some() && !uses_code) || (signal.is_some() && !uses_signal);
			// input class: the disposition and the state of the member it depends on
			let mut class = d.unwrap_or("no-disposition").to_string();
			if uses_code {
				class.push_str("/code-");
				class.push_str(code_class);
			}
			if uses_signal {
				class.push('/');
				class.push_str(&presence("signal", sg.is_some()));
			}
			if stray {
				class.push_str("/stray-member");
			}
			Expect { main: end.unwrap_or(Tag::Unknown), alt_unknown: stray || d.is_none(), fs_loose: None, class }
		}
		_ => exact(Tag::Unknown, "any".into()),
	}
}

fn judge(kind: &str, exp: &Expect, got: &Tag) -> Option<&'static str> {
	if *got == exp.main || (exp.alt_unknown && *got == Tag::Unknown) {
		return None;
	}
	if let (Some(classes), Tag::FileEventKind(k)) = (&exp.fs_loose, got) {
		if classes.contains(&class_of(k)) {
			return None;
		}
	}
	Some(if *got != Tag::Unknown && got.discriminant_name() != kind_discriminant(kind) {
		"mistaken-for-another-kind"
	} else if *got == Tag::Unknown {
		"unknown-although-complete-and-consistent"
	} else if exp.main == Tag::Unknown {
		"tag-although-incomplete-or-contradictory"
	} else {
		"wrong-value"
	})
}

/// One object through the real parser and the reference. `text` must be the JSON text of `obj`.
fn eval_decode(kind: &str, f: &[Option<&Value>; 10], text: &str, fs: &[(String, FileEventKind, &'static str)]) -> (Vec<(String, String)>, Option<Tag>) {
	let exp = model(kind, f, fs);
	match serde_json::from_str::<Tag>(text) {
		// one key per kind for the two kind-level failures, per input class otherwise
		Err(e) => (vec![(format!("C16/decode/{kind}/rejected"), format!("{text} fails to parse: {e}; the statement wants {:?}", exp.main))], None),
		Ok(got) => {
			let v = judge(kind, &exp, &got)
				.map(|what| {
					let key = if what == "mistaken-for-another-kind" {
						format!("C16/decode/{kind}/mistaken-for-{}", got.discriminant_name())
					} else {
						format!("C16/decode/{kind}/{}/{what}", exp.class)
					};
					(key, format!("{text} parses to {got:?}; the reference decoder gives {:?}", exp.main))
				})
				.into_iter()
				.collect();
			(v, Some(got))
		}
	}
}

struct Domain {
	/// per member: the values it takes (index 0 of the radix = absent)
	values: [Vec<Value>; 10],
	/// pre-rendered `,"name":value`
	frags: [Vec<String>; 10],
}

impl Domain {
	fn new(tier: Tier) -> Self {
		let thorough = matches!(tier, Tier::Thorough);
		let wide = 1i64 << 40;
		let values: [Vec<Value>; 10] = [
			vec![json!("/a/b"), json!("rel/c")],
			if thorough { vec![json!("dir"), json!("symlink"), json!("file"), json!("other")] } else { vec![json!("dir"), json!("symlink")] },
			if thorough { vec![json!("create"), json!("other"), json!("access"), json!("modify"), json!("remove")] } else { vec![json!("create"), json!("other")] },
			if thorough {
				["Create(File)", "Remove(Folder)", "Bogus(Thing)", "Any", "Other", "Access(Close(Write))", "Modify(Name(Both))", "Modify(Data(Content))", "Modify(Metadata(Any))"]
					.iter()
					.map(|s| json!(s))
					.collect()
			} else {
				vec![json!("Create(File)"), json!("Remove(Folder)"), json!("Bogus(Thing)")]
			},
			vec![json!("filesystem"), json!("internal")],
			vec![json!("eof")],
			vec![json!(123), json!(u32::MAX)],
			if thorough { vec![json!("SIGINT"), json!(34), json!(0), json!("SIGUSR2")] } else { vec![json!("SIGINT"), json!(34)] },
			["unknown", "success", "error", "signal", "stop", "exception", "continued"].iter().map(|s| json!(s)).collect(),
			if thorough {
				vec![json!(12), json!(0), json!(-1), json!(i32::MAX), json!(i64::from(i32::MAX) + 1), json!(i32::MIN), json!(i64::from(i32::MIN) - 1), json!(i64::MIN)]
			} else {
				vec![json!(12), json!(0), json!(wide), json!(-1)]
			},
		];
		let frags = std::array::from_fn(|i| values[i].iter().map(|v| format!(",\"{}\":{v}", FIELDS[i])).collect());
		Domain { values, frags }
	}
	fn radices(&self) -> Vec<usize> {
		let mut r = vec![KINDS.len()];
		r.extend(self.values.iter().map(|v| v.len() + 1));
		r.push(2); // unknown extra member
		r
	}
	fn total(&self) -> u64 {
		self.radices().iter().map(|&r| r as u64).product()
	}
}

fn render(kind: &str, frag: &[Option<&str>; 10], extra: bool) -> String {
	let mut s = String::with_capacity(160);
	s.push_str("{\"kind\":\"");
	s.push_str(kind);
	s.push('"');
	for f in frag.iter().flatten() {
		s.push_str(f);
	}
	if extra {
		s.push_str(",\"");
		s.push_str(EXTRA_MEMBER);
		s.push_str("\":[1]");
	}
	s.push('}');
	s
}

fn decode_range(dom: &Domain, fs: &[(String, FileEventKind, &'static str)], from: u64, to: u64, deadline: Instant) -> EnumOut {
	let mut out = EnumOut::default();
	let rad = dom.radices();
	for idx in from..to {
		if idx % 8192 == 0 && Instant::now() > deadline {
			out.caps.push("C16 decoder sweep stopped by the wall-clock cap".into());
			break;
		}
		let mut rest = idx;
		let mut digit = [0usize; 12];
		for (d, r) in digit.iter_mut().zip(&rad) {
			*d = (rest % *r as u64) as usize;
			rest /= *r as u64;
		}
		let kind = KINDS[digit[0]];
		let f: [Option<&Value>; 10] = std::array::from_fn(|i| digit[i + 1].checked_sub(1).map(|j| &dom.values[i][j]));
		let fr: [Option<&str>; 10] = std::array::from_fn(|i| digit[i + 1].checked_sub(1).map(|j| dom.frags[i][j].as_str()));
		let text = render(kind, &fr, digit[11] == 1);
		out.states += 1;
		out.evaluations += 1;
		let (viol, got) = eval_decode(kind, &f, &text, fs);
		if let Some(g) = got.filter(|g| *g != Tag::Unknown) {
			out.nontrivial_mark(format!("{g:?}"));
		}
		for (k, d) in viol {
			out.violate(k, d, json!({"part": "decode", "text": text}));
		}
	}
	out
}

/// Re-run one recorded decoder case from its JSON text.
fn replay_decode(text: &str, fs: &[(String, FileEventKind, &'static str)]) -> Vec<(String, String)> {
	let Ok(Value::Object(o)) = serde_json::from_str::<Value>(text) else {
		return vec![("C16/replay/bad-input".into(), format!("{text} is not a JSON object"))];
	};
	let kind = o.get("kind").and_then(Value::as_str).unwrap_or("none").to_string();
	let f: [Option<&Value>; 10] = std::array::from_fn(|i| o.get(FIELDS[i]));
	eval_decode(&kind, &f, text, fs).0
}

pub fn replay(input: &Value) -> Vec<(String, String)> {
	let fs = fs_table();
	match input["part"].as_str() {
		Some("roundtrip") => {
			let syms: Option<Vec<Sym>> = input["tags"].as_array().map(|a| a.iter().map(|s| build(s, &fs)).collect()).unwrap_or(None);
			let Some(syms) = syms else {
				return vec![("C16/replay/bad-input".into(), format!("cannot rebuild tags from {}", input["tags"]))];
			};
			let refs: Vec<&Sym> = syms.iter().collect();
			eval_roundtrip(&refs, input["meta"].as_u64().unwrap_or(0) as usize).0
		}
		Some("decode") => replay_decode(input["text"].as_str().unwrap_or(""), &fs),
		_ => vec![("C16/replay/bad-input".into(), "unknown part".into())],
	}
}

// ---------------------------------------------------------------------------------------

fn ranges(total: u64, pieces: u64, seed: u64) -> Vec<(u64, u64)> {
	let step = total.div_ceil(pieces.max(1)).max(1);
	let mut v: Vec<(u64, u64)> = (0..total).step_by(step as usize).map(|a| (a, (a + step).min(total))).collect();
	if !v.is_empty() {
		let k = (seed % v.len() as u64) as usize;
		v.rotate_left(k); // the seed only permutes the work order
	}
	v
}

pub fn run(tier: Tier, seed: u64) -> EnumOut {
	let t0 = Instant::now();
	let deadline = t0 + Duration::from_secs(match tier {
		Tier::Quick => 25,
		Tier::Thorough => 480,
	});
	let mut out = EnumOut::new(
		"round trip: every tag sequence up to the length bound over the complete tag alphabet x 4 metadata shapes, real to_string/from_str + documented-shape comparison; decoder: every known-kind object over the member grammar, real from_str::<Tag> vs the reference decoder. non-trivial = distinct serialised tag/metadata objects other than the empty event's, plus distinct decoder results other than Unknown",
	);
	out.assumptions = vec![
		"documented format = doc/watchexec.1.md (--emit-events-to), type docs, and the signal names pinned by crates/events/tests/snapshots".into(),
		"ill-typed or out-of-vocabulary member values are outside the statement (counted in ill_typed_*, not judged)".into(),
		"debatable contradictions (simple vs full, stray code/signal, full outside the vocabulary) may give Unknown or the same kind's tag; never another kind, never an error".into(),
	];
	let fs = fs_table();
	if fs.len() != 41 {
		out.machinery = Some(format!("kind table has {} rows, expected 41", fs.len()));
		return out;
	}
	let specs = alphabet_specs(&fs);
	let syms: Vec<Sym> = match specs.iter().map(|s| build(s, &fs)).collect::<Option<Vec<_>>>() {
		Some(s) => s,
		None => {
			out.machinery = Some("alphabet spec does not build".into());
			return out;
		}
	};
	let n = syms.len() as u64;
	let maxlen: u32 = match tier {
		Tier::Quick => 2,
		Tier::Thorough => 3,
	};
	out.extra.insert("alphabet_tags".into(), json!(n));
	out.extra.insert("max_tags_per_event".into(), json!(maxlen));

	// ---- Part R
	let seqs: u64 = (0..=maxlen).map(|l| n.pow(l)).sum();
	let total_r = seqs * N_META as u64;
	let rs = ranges(total_r, 512, seed);
	let part_r = par_map(&rs, 16, |chunk, _| {
		let mut o = EnumOut::default();
		'outer: for &(a, b) in chunk {
			for idx in a..b {
				if idx % 8192 == 0 && Instant::now() > deadline {
					o.caps.push("C16 round-trip enumeration stopped by the wall-clock cap".into());
					break 'outer;
				}
				let meta = (idx % N_META as u64) as usize;
				let mut s = idx / N_META as u64;
				// sequence number -> (length, digits)
				let mut len = 0u32;
				while s >= n.pow(len) {
					s -= n.pow(len);
					len += 1;
				}
				let mut tags: Vec<&Sym> = Vec::with_capacity(len as usize);
				for _ in 0..len {
					tags.push(&syms[(s % n) as usize]);
					s /= n;
				}
				o.states += 1;
				o.evaluations += 1;
				let (viol, text) = eval_roundtrip(&tags, meta);
				if len <= 1 {
					if let Some(t) = &text {
						if len == 1 || meta != 0 {
							o.nontrivial_mark(t);
						}
						if (len == 1 && meta == 1 && idx % 97 == 5) || (len == 0 && meta == 2) {
							o.sample(json!({"part": "roundtrip", "tags": tags.iter().map(|s| s.spec.clone()).collect::<Vec<_>>(), "meta": meta, "text": t, "violations": viol.len()}));
						}
					}
				}
				for (k, d) in viol {
					o.violate(k, d, json!({"part": "roundtrip", "tags": tags.iter().map(|s| s.spec.clone()).collect::<Vec<_>>(), "meta": meta}));
				}
			}
		}
		o
	});
	out.extra.insert("roundtrip_events".into(), json!(part_r.states));
	out.merge(part_r);

	// ---- Part D: product grammar
	let dom = Domain::new(tier);
	let total_d = dom.total();
	let ds = ranges(total_d, 512, seed);
	let part_d = par_map(&ds, 16, |chunk, _| {
		let mut o = EnumOut::default();
		for &(a, b) in chunk {
			o.merge(decode_range(&dom, &fs, a, b, deadline));
		}
		o
	});
	out.extra.insert("decoder_objects_product".into(), json!(part_d.states));
	out.merge(part_d);

	// ---- Part D: complete simple x full table under every kind
	let simples: Vec<Option<Value>> = std::iter::once(None).chain(["access", "create", "modify", "remove", "other"].iter().map(|s| Some(json!(s)))).collect();
	let fulls: Vec<Option<Value>> =
		std::iter::once(None).chain(fs.iter().map(|(n, _, _)| Some(json!(n)))).chain(std::iter::once(Some(json!("Bogus(Thing)")))).collect();
	let mut table = 0u64;
	for kind in KINDS {
		for s in &simples {
			for fl in &fulls {
				let mut f: [Option<&Value>; 10] = [None; 10];
				f[2] = s.as_ref();
				f[3] = fl.as_ref();
				let mut o = Map::new();
				o.insert("kind".into(), json!(kind));
				if let Some(s) = s {
					o.insert("simple".into(), s.clone());
				}
				if let Some(fl) = fl {
					o.insert("full".into(), fl.clone());
				}
				let text = Value::Object(o).to_string();
				table += 1;
				out.states += 1;
				out.evaluations += 1;
				let (viol, got) = eval_decode(kind, &f, &text, &fs);
				if let Some(g) = got.as_ref().filter(|g| **g != Tag::Unknown) {
					out.nontrivial_mark(format!("{g:?}"));
				}
				if kind == "fs" && (table % 61 == 7) {
					out.sample(json!({"part": "decode", "text": text, "parsed": got.map(|g| format!("{g:?}")), "violations": viol.len()}));
				}
				for (k, d) in viol {
					out.violate(k, d, json!({"part": "decode", "text": text}));
				}
			}
		}
	}
	out.extra.insert("decoder_objects_fs_table".into(), json!(table));

	// ---- informational: ill-typed / out-of-vocabulary values (outside the statement)
	let ill: [(&str, Value); 10] = [
		("absolute", json!(17)),
		("filetype", json!("bogus")),
		("simple", json!("rename")),
		("full", json!(17)),
		("source", json!("network")),
		("keycode", json!("ctrl-d")),
		("pid", json!(-1)),
		("signal", json!("SIGBOGUS")),
		("disposition", json!("crashed")),
		("code", json!("12")),
	];
	let (mut ill_total, mut ill_rejected) = (0u64, 0u64);
	for kind in KINDS {
		for (name, val) in &ill {
			let mut o = Map::new();
			o.insert("kind".into(), json!(kind));
			o.insert((*name).to_string(), val.clone());
			let text = Value::Object(o).to_string();
			ill_total += 1;
			if serde_json::from_str::<Tag>(&text).is_err() {
				ill_rejected += 1;
			}
		}
	}
	out.extra.insert("ill_typed_objects_probed".into(), json!(ill_total));
	out.extra.insert("ill_typed_objects_rejected_by_parser".into(), json!(ill_rejected));

	out.caps.sort();
	out.caps.dedup();
	out
}
