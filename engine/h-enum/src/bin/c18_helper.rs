//! Child process used by the C18 check (real-spawn leg).
//!
//! It is executed under a per-case path `<case dir>/h` (a symlink to this binary) and
//! writes what it actually received to `<case dir>/dump.json`: argv as raw bytes, its
//! pid / process group / session (from /proc/self/stat), its working directory and the
//! value of the environment variable `C18_PROBE`. The report location is derived from
//! argv[0] only, so it does not depend on the cwd / environment under test.

use std::{
	ffi::OsString,
	os::unix::ffi::{OsStrExt, OsStringExt},
	path::PathBuf,
};

fn main() {
	let argv: Vec<OsString> = std::env::args_os().collect();
	let Some(me) = argv.first() else { std::process::exit(3) };
	let dir = PathBuf::from(me).parent().map(PathBuf::from).unwrap_or_default();

	let stat = std::fs::read_to_string("/proc/self/stat").unwrap_or_default();
	// pid (comm) state ppid pgrp session ...   — comm may contain spaces/parens: cut at the last ')'
	let tail = stat.rsplit_once(')').map(|(_, t)| t).unwrap_or("");
	let f: Vec<&str> = tail.split_ascii_whitespace().collect();
	let num = |i: usize| f.get(i).and_then(|s| s.parse::<i64>().ok()).unwrap_or(-1);

	let bytes = |b: &[u8]| serde_json::Value::from(b.to_vec());
	let report = serde_json::json!({
		"argv": argv.iter().map(|a| bytes(a.as_bytes())).collect::<Vec<_>>(),
		"pid": std::process::id(),
		"ppid": num(1),
		"pgid": num(2),
		"sid": num(3),
		"cwd": std::env::current_dir().map(|p| bytes(&p.into_os_string().into_vec())).unwrap_or(serde_json::Value::Null),
		"probe": std::env::var_os("C18_PROBE").map(|v| bytes(v.as_bytes())),
	});
	let tmp = dir.join("dump.json.tmp");
	if std::fs::write(&tmp, report.to_string()).is_err() {
		std::process::exit(4);
	}
	if std::fs::rename(&tmp, dir.join("dump.json")).is_err() {
		std::process::exit(5);
	}
	// respawn-path leg: one line per spawn, and the process lingers so that it can be
	// restarted ("linger": dies on SIGTERM; "linger-ignore": ignores SIGTERM)
	let mode = argv.get(1).and_then(|a| a.to_str().map(str::to_string)).unwrap_or_default();
	if mode == "linger" || mode == "linger-ignore" {
		use std::io::Write;
		if mode == "linger-ignore" {
			extern "C" {
				fn signal(sig: i32, handler: usize) -> usize;
			}
			unsafe {
				signal(15, 1); // SIG_IGN
			}
		}
		if let Ok(mut f) = std::fs::OpenOptions::new().create(true).append(true).open(dir.join("dumps.jsonl")) {
			// one write(2) for the whole line: a reader (or a SIGKILL) never sees half of it
			let _ = f.write_all(format!("{report}\n").as_bytes());
		}
		std::thread::sleep(std::time::Duration::from_secs(30));
	}
}
