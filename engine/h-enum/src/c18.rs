//! C18 — not built yet.
use dex::orch::Tier;
use serde_json::Value;

use crate::common::EnumOut;

pub fn replay(_input: &Value) -> Vec<(String, String)> {
	vec![]
}

pub fn run(_tier: Tier, _seed: u64) -> EnumOut {
	let mut o = EnumOut::new("not built");
	o.machinery = Some("check not built yet".into());
	o
}
