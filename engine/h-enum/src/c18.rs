//! C18 — commands are spawned with exactly the configured program and arguments.
//!
//! Bounded-exhaustive enumeration in three legs, all on the real code:
//!
//!  * inspect  — `Command::to_spawnable()` for every `Program::Exec` with an argument vector of
//!               length <= 3 over the 12 tokens below (x 3 program names) and every
//!               `Program::Shell` {options <= 2} x {program_option} x {command} x {args <= 2},
//!               each x {plain, grouped, session, grouped+session}; the argv the OS would get
//!               (`as_std().get_program()/get_args()`) and the group/session wrappers are read
//!               back. No process is created.
//!  * spawn    — the same kind of commands really spawned through a supervisor `Job` (no child
//!               factory installed) with `src/bin/c18_helper.rs` as the program / the shell. The
//!               helper reports the argv bytes it received, its pid, pgid, sid, cwd and one
//!               environment variable. A sync / async spawn hook sets cwd and the variable.
//!  * cli      — `args_from(argv)` + `interpret_command_args` for `-n`, `--shell=none`,
//!               `--shell=<words>`, default shell, x every `--wrap-process` spelling, x every word
//!               vector; the resulting `Command` goes through `to_spawnable()` again.
//!
//! Reference model (written from the property statement and the CLI help text, see `model_argv`,
//! `model_placement`, `model_cli`): exec => [program] ++ args, unchanged; shell => [shell] ++
//! options ++ [program option]? ++ [command] ++ args; session => sid == pid (and pgid == pid),
//! grouped => pgid == pid with the session inherited, plain => both inherited; the CLI joins the
//! command words with one space for a shell and passes them through unchanged without one.
//!
//! Bounds. inspect/exec: 1885 vectors x 3 programs x 4 option sets (both tiers). inspect/shell:
//! quick = options, args <= 2 over 6 tokens, 12 commands, program option {-c, none}; thorough =
//! all 12 tokens and program option {-c, none, /C}. spawn/exec: every vector <= 2 (thorough <= 3)
//! x {plain, grouped, session} (thorough also grouped+session) with the sync hook; vectors <= 1
//! (thorough <= 2) also with no hook and with the async hook. spawn/shell: options <= 1 and
//! args <= 1 over 4 tokens (thorough 12) x 12 commands x program option {-c, none} x 3 placements.
//! cli: every word vector of length 1..=3 (thorough 1..=4) x 7 shell modes x 5 wrap spellings.
//! The spawn leg runs on at most 4 threads (concurrent fork() from many threads serialises on
//! the address-space lock); a spawn that does not finish in 30 s is retried once and then
//! reported as a machinery error, never as a verdict.
//!
//! Deviations from DESIGN.md section 7: the `KillOnDrop` wrapper is not asserted (the statement
//! does not speak about it); the helper is a second binary of this package (src/bin), found next
//! to the running executable; nothing is asserted about cwd / environment when no hook is set
//! (the statement only speaks about changes made by the hook).

use std::{
	borrow::Cow,
	ffi::OsString,
	os::unix::ffi::OsStrExt,
	path::{Path, PathBuf},
	sync::{Arc, Mutex},
	time::Duration,
};

use dex::orch::Tier;
use process_wrap::tokio::{ProcessGroup, ProcessSession};
use serde::{Deserialize, Serialize};
use serde_json::{json, Value};
use watchexec_supervisor::{
	command::{Command, Program, Shell, SpawnOptions},
	job::start_job,
};

use crate::common::{par_map, EnumOut, Scratch};

const TOK: [&str; 12] = ["", " ", "a b", "'", "\"", "$HOME", "*", "\n", "é", "-c", "--", "x"];
/// subset used where the quick tier cannot afford all 12 (covers: empty, whitespace, quote, glob)
const TOK_Q: [usize; 6] = [0, 2, 3, 5, 6, 7];
const PROBE_VAR: &str = "C18_PROBE";
const PROBE_VAL: &str = "v a=l \"u\u{e9}$X*\n'";
const HELPER_MARK: &str = "<helper>";
const WORKDIR_NAME: &str = "w d \u{e9}";

// ---------------------------------------------------------------------------------------------
// configurations

#[derive(Clone, Debug, PartialEq, Serialize, Deserialize)]
#[serde(rename_all = "lowercase")]
enum Spec {
	Exec { prog: String, args: Vec<String> },
	Shell { prog: String, options: Vec<String>, program_option: Option<String>, command: String, args: Vec<String> },
}

#[derive(Clone, Copy, Debug, PartialEq, Serialize, Deserialize)]
struct Opts {
	grouped: bool,
	session: bool,
}

const OPTS4: [Opts; 4] = [
	Opts { grouped: false, session: false },
	Opts { grouped: true, session: false },
	Opts { grouped: false, session: true },
	Opts { grouped: true, session: true },
];

#[derive(Clone, Copy, Debug, PartialEq)]
enum Placement {
	Plain,
	Group,
	Session,
}

impl Spec {
	fn mode(&self) -> &'static str {
		match self {
			Spec::Exec { .. } => "exec",
			Spec::Shell { .. } => "shell",
		}
	}
	fn with_prog(&self, p: &str) -> Spec {
		let mut s = self.clone();
		match &mut s {
			Spec::Exec { prog, .. } | Spec::Shell { prog, .. } => *prog = p.to_string(),
		}
		s
	}
	/// bitmask of the token kinds carried after the program (bit 12 = any other string)
	fn mask(&self) -> (u32, usize) {
		let mut strs: Vec<&str> = vec![];
		let mut m = 0u32;
		match self {
			Spec::Exec { args, .. } => strs.extend(args.iter().map(String::as_str)),
			Spec::Shell { options, program_option, command, args, .. } => {
				strs.extend(options.iter().map(String::as_str));
				if program_option.is_some() {
					m |= 1 << 13;
				}
				strs.push(command);
				m |= 1 << 14;
				strs.extend(args.iter().map(String::as_str));
			}
		}
		let n = strs.len();
		for s in strs {
			m |= TOK.iter().position(|t| *t == s).map_or(1 << 12, |i| 1 << i);
		}
		(m, n)
	}
}

// ---------------------------------------------------------------------------------------------
// reference model

/// What the child must receive as argv, from the property statement.
fn model_argv(s: &Spec) -> Vec<Vec<u8>> {
	let b = |x: &String| x.as_bytes().to_vec();
	match s {
		Spec::Exec { prog, args } => std::iter::once(b(prog)).chain(args.iter().map(b)).collect(),
		Spec::Shell { prog, options, program_option, command, args } => std::iter::once(b(prog))
			.chain(options.iter().map(b))
			.chain(program_option.iter().map(b))
			.chain(std::iter::once(b(command)))
			.chain(args.iter().map(b))
			.collect(),
	}
}

/// `session` implies `grouped` (SpawnOptions docs).
fn model_placement(o: Opts) -> Placement {
	if o.session {
		Placement::Session
	} else if o.grouped {
		Placement::Group
	} else {
		Placement::Plain
	}
}

#[derive(Clone, Debug, Serialize, Deserialize)]
struct CliCase {
	/// "-n" | "--shell=none" | "--shell=<words>" | "default"
	mode: String,
	/// "default" | "group" | "session" | "none" | "no-process-group"
	wrap: String,
	words: Vec<String>,
}

/// The command the CLI must build, from the help text of COMMAND, --shell, -n and --wrap-process.
/// `None` = this environment leaves the case unspecified ($SHELL with whitespace / empty).
fn model_cli(c: &CliCase, env_shell: Option<&str>) -> Option<(Spec, Opts)> {
	let opts = match c.wrap.as_str() {
		"default" | "group" => Opts { grouped: true, session: false },
		"session" => Opts { grouped: false, session: true },
		_ => Opts { grouped: false, session: false },
	};
	let shell_line: Option<String> = match c.mode.as_str() {
		"-n" | "--shell=none" => None,
		"default" => {
			let s = env_shell.unwrap_or("sh");
			if s.is_empty() || s == "none" || s.contains(|ch: char| ch.is_whitespace()) {
				return None;
			}
			Some(s.to_string())
		}
		m => Some(m.strip_prefix("--shell=")?.to_string()),
	};
	let spec = match shell_line {
		None => Spec::Exec { prog: c.words[0].clone(), args: c.words[1..].to_vec() },
		Some(line) => {
			let mut w = line.split_whitespace().map(str::to_string);
			Spec::Shell {
				prog: w.next()?,
				options: w.collect(),
				program_option: Some("-c".into()),
				command: c.words.join(" "),
				args: vec![],
			}
		}
	};
	Some((spec, opts))
}

// ---------------------------------------------------------------------------------------------
// real code: construction and observation

fn build(spec: &Spec, o: Opts) -> Command {
	let program = match spec {
		Spec::Exec { prog, args } => Program::Exec { prog: PathBuf::from(prog), args: args.clone() },
		Spec::Shell { prog, options, program_option, command, args } => Program::Shell {
			shell: Shell {
				prog: PathBuf::from(prog),
				options: options.clone(),
				program_option: program_option.as_ref().map(|p| Cow::Owned(OsString::from(p))),
			},
			command: command.clone(),
			args: args.clone(),
		},
	};
	Command { program, options: SpawnOptions { grouped: o.grouped, session: o.session, ..Default::default() } }
}

struct Seen {
	argv: Vec<Vec<u8>>,
	group_wrap: bool,
	session_wrap: bool,
}

fn observe(cmd: &Command) -> Seen {
	let w = cmd.to_spawnable();
	let std = w.command().as_std();
	let argv = std::iter::once(std.get_program().as_bytes().to_vec()).chain(std.get_args().map(|a| a.as_bytes().to_vec())).collect();
	Seen { argv, group_wrap: w.has_wrap::<ProcessGroup>(), session_wrap: w.has_wrap::<ProcessSession>() }
}

fn show(v: &[Vec<u8>]) -> String {
	format!("{:?}", v.iter().map(|a| String::from_utf8_lossy(a).into_owned()).collect::<Vec<_>>())
}

/// how an argv differs from the expected one (stable, small classification)
fn differ(expected: &[Vec<u8>], actual: &[Vec<u8>]) -> Option<&'static str> {
	if expected == actual {
		return None;
	}
	Some(if actual.len() > expected.len() {
		"split"
	} else if actual.len() < expected.len() {
		"merged"
	} else {
		let (mut a, mut b) = (expected.to_vec(), actual.to_vec());
		a.sort();
		b.sort();
		if a == b {
			"reordered"
		} else {
			"altered"
		}
	})
}

fn check_seen(layer: &str, spec: &Spec, o: Opts, seen: &Seen, v: &mut Vec<(String, String)>) {
	let want = model_argv(spec);
	if let Some(how) = differ(&want, &seen.argv) {
		v.push((format!("C18/{layer}/{}/argv-{how}", spec.mode()), format!("expected argv {} but the command carries {}", show(&want), show(&seen.argv))));
	}
	let (ok, what) = match model_placement(o) {
		Placement::Plain => (!seen.group_wrap && !seen.session_wrap, "plain"),
		Placement::Group => (seen.group_wrap && !seen.session_wrap, "grouped"),
		Placement::Session => (seen.session_wrap, "session"),
	};
	if !ok {
		v.push((
			format!("C18/{layer}/wrap/{what}"),
			format!("options {o:?}: process-group wrapper = {}, session wrapper = {}", seen.group_wrap, seen.session_wrap),
		));
	}
}

fn inspect(spec: &Spec, o: Opts) -> Vec<(String, String)> {
	let mut v = vec![];
	check_seen("inspect", spec, o, &observe(&build(spec, o)), &mut v);
	v
}

// ---------------------------------------------------------------------------------------------
// real spawn

#[derive(Clone, Copy, Debug, PartialEq, Serialize, Deserialize)]
#[serde(rename_all = "lowercase")]
enum Hook {
	None,
	Sync,
	Async,
}

struct Ids {
	pgid: i64,
	sid: i64,
}

fn my_ids() -> Ids {
	let stat = std::fs::read_to_string("/proc/self/stat").unwrap_or_default();
	let tail = stat.rsplit_once(')').map(|(_, t)| t.to_string()).unwrap_or_default();
	let f: Vec<&str> = tail.split_ascii_whitespace().collect();
	let num = |i: usize| f.get(i).and_then(|s| s.parse::<i64>().ok()).unwrap_or(-2);
	Ids { pgid: num(2), sid: num(3) }
}

fn helper_path() -> Result<PathBuf, String> {
	let me = std::env::current_exe().map_err(|e| format!("current_exe: {e}"))?;
	let p = me.parent().unwrap_or(Path::new(".")).join("c18_helper");
	if p.is_file() {
		Ok(p)
	} else {
		Err(format!("helper binary {} not found (build the whole h-enum package)", p.display()))
	}
}

fn bytes_of(v: &Value) -> Option<Vec<u8>> {
	v.as_array().map(|a| a.iter().map(|x| x.as_u64().unwrap_or(0) as u8).collect())
}

/// Spawn one command for real through a Job; Err = machinery problem (not a verdict).
async fn spawn_case(spec: &Spec, o: Opts, hook: Hook, casedir: &Path, helper: &Path, me: &Ids) -> Result<(Vec<(String, String)>, Value), String> {
	let _ = std::fs::remove_dir_all(casedir);
	let wd = casedir.join(WORKDIR_NAME);
	std::fs::create_dir_all(&wd).map_err(|e| format!("mkdir: {e}"))?;
	let link = casedir.join("h");
	std::os::unix::fs::symlink(helper, &link).map_err(|e| format!("symlink: {e}"))?;
	let spec = spec.with_prog(link.to_str().ok_or("non-utf8 scratch path")?);
	let want = model_argv(&spec);

	let errors: Arc<Mutex<Vec<String>>> = Arc::default();
	let (job, task) = start_job(Arc::new(build(&spec, o)));
	{
		let errors = errors.clone();
		job.set_error_handler(move |e| errors.lock().unwrap().push(format!("{:?}", e)));
	}
	match hook {
		Hook::None => {}
		Hook::Sync => {
			let wd = wd.clone();
			job.set_spawn_hook(move |c, _| {
				c.command_mut().current_dir(&wd).env(PROBE_VAR, PROBE_VAL);
			});
		}
		Hook::Async => {
			let wd = wd.clone();
			job.set_spawn_async_hook(move |c, _| {
				c.command_mut().current_dir(&wd).env(PROBE_VAR, PROBE_VAL);
				Box::new(async {})
			});
		}
	}
	let run = async {
		job.start().await;
		job.to_wait().await;
		job.delete_now().await;
		let _ = task.await;
	};
	if tokio::time::timeout(Duration::from_secs(30), run).await.is_err() {
		return Err(format!("real spawn of {spec:?} did not finish within 30 s"));
	}

	let mut v = vec![];
	let mode = spec.mode();
	let dump = std::fs::read_to_string(casedir.join("dump.json")).ok().and_then(|s| serde_json::from_str::<Value>(&s).ok());
	let Some(d) = dump else {
		v.push((
			format!("C18/spawn/{mode}/no-report"),
			format!("the helper was not run as {} (spawn errors: {:?})", show(&want), errors.lock().unwrap()),
		));
		let _ = std::fs::remove_dir_all(casedir);
		return Ok((v, Value::Null));
	};
	let got: Vec<Vec<u8>> = d["argv"].as_array().map(|a| a.iter().filter_map(bytes_of).collect()).unwrap_or_default();
	if let Some(how) = differ(&want, &got) {
		v.push((format!("C18/spawn/{mode}/argv-{how}"), format!("expected the child to receive {} but it received {}", show(&want), show(&got))));
	}
	let (pid, pgid, sid) = (d["pid"].as_i64().unwrap_or(-1), d["pgid"].as_i64().unwrap_or(-1), d["sid"].as_i64().unwrap_or(-1));
	let (ok, what) = match model_placement(o) {
		Placement::Plain => (pgid == me.pgid && sid == me.sid, "plain"),
		Placement::Group => (pgid == pid && sid == me.sid, "grouped"),
		Placement::Session => (sid == pid && pgid == pid, "session"),
	};
	if !ok {
		v.push((
			format!("C18/spawn/placement/{what}"),
			format!("options {o:?}: child pid {pid} pgid {pgid} sid {sid}; parent pgid {} sid {}", me.pgid, me.sid),
		));
	}
	if hook != Hook::None {
		let h = if hook == Hook::Sync { "hook-sync" } else { "hook-async" };
		let cwd = bytes_of(&d["cwd"]).unwrap_or_default();
		let want_cwd = std::fs::canonicalize(&wd).unwrap_or(wd.clone());
		if cwd != want_cwd.as_os_str().as_bytes() {
			v.push((format!("C18/spawn/{h}/cwd"), format!("hook set cwd {:?}, child ran in {:?}", want_cwd, String::from_utf8_lossy(&cwd))));
		}
		let probe = bytes_of(&d["probe"]);
		if probe.as_deref() != Some(PROBE_VAL.as_bytes()) {
			v.push((
				format!("C18/spawn/{h}/env"),
				format!("hook set {PROBE_VAR}={PROBE_VAL:?}, child saw {:?}", probe.map(|p| String::from_utf8_lossy(&p).into_owned())),
			));
		}
	}
	let _ = std::fs::remove_dir_all(casedir);
	let seen = json!({
		"argv": got.iter().skip(1).map(|a| String::from_utf8_lossy(a).into_owned()).collect::<Vec<_>>(),
		"pgid_is_pid": pgid == pid, "sid_is_pid": sid == pid, "pgid_inherited": pgid == me.pgid, "sid_inherited": sid == me.sid,
		"cwd": bytes_of(&d["cwd"]).map(|c| String::from_utf8_lossy(&c).rsplit('/').next().unwrap_or("").to_string()),
		"probe": bytes_of(&d["probe"]).map(|p| String::from_utf8_lossy(&p).into_owned()),
	});
	Ok((v, seen))
}

/// Every way a job spawns a *replacement*: the spawn hook must run, and its changes must
/// be visible to the new process, on each of them.
#[derive(Clone, Copy, Debug, PartialEq, Serialize, Deserialize)]
#[serde(rename_all = "kebab-case")]
enum Respawn {
	Restart,
	TryRestart,
	GracefulRestartWithinGrace,
	GracefulRestartBeyondGrace,
	TryGracefulRestartWithinGrace,
	TryGracefulRestartBeyondGrace,
	StopThenStart,
	/// `set_spawn_hook(A); start(); unset_spawn_hook()` sent back to back, awaited together
	OneShotHookBurst,
	/// `set_spawn_hook(A); start()`, then `set_spawn_hook(B); restart(); unset_spawn_hook()`, each group sent back to back
	HookSwapBurst,
}

const RESPAWNS: [Respawn; 9] = [
	Respawn::Restart,
	Respawn::TryRestart,
	Respawn::GracefulRestartWithinGrace,
	Respawn::GracefulRestartBeyondGrace,
	Respawn::TryGracefulRestartWithinGrace,
	Respawn::TryGracefulRestartBeyondGrace,
	Respawn::StopThenStart,
	Respawn::OneShotHookBurst,
	Respawn::HookSwapBurst,
];

/// Hook changes are controls like any other: one queued before a start applies to that start,
/// one queued after it does not. The controls are sent back to back and awaited together.
async fn hook_burst_case(path: Respawn, hook: Hook, casedir: &Path, helper: &Path) -> Result<Vec<(String, String)>, String> {
	let _ = std::fs::remove_dir_all(casedir);
	let wd_a = casedir.join(WORKDIR_NAME);
	let wd_b = casedir.join("w-b");
	for d in [&wd_a, &wd_b] {
		std::fs::create_dir_all(d).map_err(|e| format!("mkdir: {e}"))?;
	}
	let link = casedir.join("h");
	std::os::unix::fs::symlink(helper, &link).map_err(|e| format!("symlink: {e}"))?;
	let spec = Spec::Exec { prog: link.to_str().ok_or("non-utf8 scratch path")?.to_string(), args: vec!["linger".to_string()] };
	let (job, task) = start_job(Arc::new(build(&spec, OPTS4[0])));
	let set = |wd: PathBuf, val: &'static str| match hook {
		Hook::Async => job.set_spawn_async_hook(move |c, _| {
			c.command_mut().current_dir(&wd).env(PROBE_VAR, val);
			Box::new(async {})
		}),
		_ => job.set_spawn_hook(move |c, _| {
			c.command_mut().current_dir(&wd).env(PROBE_VAR, val);
		}),
	};
	const VAL_B: &str = "second hook";
	let lines = || {
		std::fs::read_to_string(casedir.join("dumps.jsonl"))
			.map(|s| s.split_inclusive('\n').filter(|l| l.ends_with('\n')).map(|l| l.trim_end().to_string()).collect::<Vec<_>>())
			.unwrap_or_default()
	};
	// each group is sent back to back and awaited together; then the process it started must report
	let ngroups = if path == Respawn::OneShotHookBurst { 1 } else { 2 };
	let mut expect: Vec<(PathBuf, &str)> = vec![];
	let mut failed = None;
	'groups: for gi in 0..ngroups {
		let (tickets, exp) = match (path, gi) {
			(Respawn::OneShotHookBurst, _) => (vec![set(wd_a.clone(), PROBE_VAL), job.start(), job.unset_spawn_hook()], (wd_a.clone(), PROBE_VAL)),
			(_, 0) => (vec![set(wd_a.clone(), PROBE_VAL), job.start()], (wd_a.clone(), PROBE_VAL)),
			_ => (vec![set(wd_b.clone(), VAL_B), job.restart(), job.unset_spawn_hook()], (wd_b.clone(), VAL_B)),
		};
		expect.push(exp);
		for t in tickets {
			if tokio::time::timeout(Duration::from_secs(30), t).await.is_err() {
				failed = Some(format!("a ticket of the {path:?} case did not resolve within 30 s"));
				break 'groups;
			}
		}
		let t0 = std::time::Instant::now();
		while lines().len() < expect.len() {
			if t0.elapsed() > Duration::from_secs(30) {
				failed = Some(format!("process #{} of the {path:?} case did not report within 30 s", expect.len()));
				break 'groups;
			}
			tokio::time::sleep(Duration::from_millis(10)).await;
		}
	}
	job.delete_now().await;
	let _ = tokio::time::timeout(Duration::from_secs(10), task).await;
	if let Some(f) = failed {
		return Err(f);
	}
	let h = if hook == Hook::Async { "hook-async" } else { "hook-sync" };
	let mut v = vec![];
	for (i, (l, (wd, val))) in lines().iter().zip(expect.iter()).enumerate() {
		let d: Value = serde_json::from_str(l).map_err(|e| format!("unreadable helper report {l:?}: {e}"))?;
		let cwd = bytes_of(&d["cwd"]).unwrap_or_default();
		let want_cwd = std::fs::canonicalize(wd).unwrap_or(wd.clone());
		let which = if i == 0 { "first" } else { "replacement" };
		if cwd != want_cwd.as_os_str().as_bytes() {
			v.push((format!("C18/respawn/{path:?}/{h}/cwd/{which}"), format!("the hook in force when this start was sent set cwd {:?}, the {which} process ran in {:?}", want_cwd, String::from_utf8_lossy(&cwd))));
		}
		let probe = bytes_of(&d["probe"]);
		if probe.as_deref() != Some(val.as_bytes()) {
			v.push((
				format!("C18/respawn/{path:?}/{h}/env/{which}"),
				format!("the hook in force when this start was sent set {PROBE_VAR}={val:?}, the {which} process saw {:?}", probe.map(|p| String::from_utf8_lossy(&p).into_owned())),
			));
		}
	}
	let _ = std::fs::remove_dir_all(casedir);
	Ok(v)
}

async fn respawn_case(path: Respawn, hook: Hook, casedir: &Path, helper: &Path) -> Result<Vec<(String, String)>, String> {
	use watchexec_supervisor::Signal;
	if matches!(path, Respawn::OneShotHookBurst | Respawn::HookSwapBurst) {
		return if hook == Hook::None { Ok(vec![]) } else { hook_burst_case(path, hook, casedir, helper).await };
	}
	let _ = std::fs::remove_dir_all(casedir);
	let wd = casedir.join(WORKDIR_NAME);
	std::fs::create_dir_all(&wd).map_err(|e| format!("mkdir: {e}"))?;
	let link = casedir.join("h");
	std::os::unix::fs::symlink(helper, &link).map_err(|e| format!("symlink: {e}"))?;
	let beyond = matches!(path, Respawn::GracefulRestartBeyondGrace | Respawn::TryGracefulRestartBeyondGrace);
	let mode = if beyond { "linger-ignore" } else { "linger" };
	let spec = Spec::Exec { prog: link.to_str().ok_or("non-utf8 scratch path")?.to_string(), args: vec![mode.to_string()] };
	let (job, task) = start_job(Arc::new(build(&spec, OPTS4[0])));
	match hook {
		Hook::None => {}
		Hook::Sync => {
			let wd = wd.clone();
			job.set_spawn_hook(move |c, _| {
				c.command_mut().current_dir(&wd).env(PROBE_VAR, PROBE_VAL);
			});
		}
		Hook::Async => {
			let wd = wd.clone();
			job.set_spawn_async_hook(move |c, _| {
				c.command_mut().current_dir(&wd).env(PROBE_VAR, PROBE_VAL);
				Box::new(async {})
			});
		}
	}
	// complete lines only (the helper writes each line with one write(2); a trailing fragment
	// would be a process killed mid-report and is not counted)
	let lines = || {
		std::fs::read_to_string(casedir.join("dumps.jsonl"))
			.map(|s| s.split_inclusive('\n').filter(|l| l.ends_with('\n')).map(|l| l.trim_end().to_string()).collect::<Vec<_>>())
			.unwrap_or_default()
	};
	let wait_lines = |n: usize| async move {
		let t0 = std::time::Instant::now();
		while lines().len() < n {
			if t0.elapsed() > Duration::from_secs(30) {
				return Err(format!("process #{n} of the {path:?} case did not report within 30 s"));
			}
			tokio::time::sleep(Duration::from_millis(10)).await;
		}
		Ok(())
	};
	job.start().await;
	wait_lines(1).await?;
	let grace = Duration::from_millis(150);
	match path {
		Respawn::Restart => {
			job.restart().await;
		}
		Respawn::TryRestart => {
			job.try_restart().await;
		}
		Respawn::GracefulRestartWithinGrace | Respawn::GracefulRestartBeyondGrace => {
			job.restart_with_signal(Signal::Terminate, if beyond { grace } else { Duration::from_secs(20) }).await;
		}
		Respawn::TryGracefulRestartWithinGrace | Respawn::TryGracefulRestartBeyondGrace => {
			job.try_restart_with_signal(Signal::Terminate, if beyond { grace } else { Duration::from_secs(20) }).await;
		}
		Respawn::StopThenStart => {
			job.stop().await;
			job.start().await;
		}
		Respawn::OneShotHookBurst | Respawn::HookSwapBurst => unreachable!(),
	}
	let second = wait_lines(2).await;
	job.delete_now().await;
	let _ = tokio::time::timeout(Duration::from_secs(10), task).await;
	second?;
	let mut v = vec![];
	let all = lines();
	if hook != Hook::None {
		let h = if hook == Hook::Sync { "hook-sync" } else { "hook-async" };
		for (i, l) in all.iter().enumerate().take(2) {
			let d: Value = serde_json::from_str(l).map_err(|e| format!("unreadable helper report {l:?}: {e}"))?;
			let cwd = bytes_of(&d["cwd"]).unwrap_or_default();
			let want_cwd = std::fs::canonicalize(&wd).unwrap_or(wd.clone());
			let which = if i == 0 { "first" } else { "replacement" };
			if cwd != want_cwd.as_os_str().as_bytes() {
				v.push((format!("C18/respawn/{path:?}/{h}/cwd/{which}"), format!("hook set cwd {:?}, the {which} process ran in {:?}", want_cwd, String::from_utf8_lossy(&cwd))));
			}
			let probe = bytes_of(&d["probe"]);
			if probe.as_deref() != Some(PROBE_VAL.as_bytes()) {
				v.push((
					format!("C18/respawn/{path:?}/{h}/env/{which}"),
					format!("hook set {PROBE_VAR}={PROBE_VAL:?}, the {which} process saw {:?}", probe.map(|p| String::from_utf8_lossy(&p).into_owned())),
				));
			}
		}
	}
	// the replacement receives the same argv
	if let (Some(a), Some(b)) = (all.first(), all.get(1)) {
		let (a, b): (Value, Value) = (serde_json::from_str(a).unwrap_or(Value::Null), serde_json::from_str(b).unwrap_or(Value::Null));
		if a["argv"] != b["argv"] {
			v.push((format!("C18/respawn/{path:?}/argv-differs"), format!("first process argv {} replacement argv {}", a["argv"], b["argv"])));
		}
	}
	let _ = std::fs::remove_dir_all(casedir);
	Ok(v)
}

// ---------------------------------------------------------------------------------------------
// busy-executable leg (runs in a child process of the check: it changes the working directory)

/// Child side: `h-enum C18 --busy-leg <dir>`. The program is the relative path `./h`; the spawn
/// hook moves the child into `<dir>/hooked`, where `h` is open for writing (exec fails with
/// ETXTBSY); this process itself sits in `<dir>/elsewhere`, where another copy of `h` is fine.
/// Whatever the job does about the failed spawn, a process that runs without the hook's
/// working directory and environment shows up as `elsewhere/dump.json`.
pub fn busy_child(dir: &str) -> i32 {
	let root = PathBuf::from(dir);
	let (hooked, elsewhere) = (root.join("hooked"), root.join("elsewhere"));
	if std::env::set_current_dir(&elsewhere).is_err() {
		println!("BUSY machinery: cannot enter {}", elsewhere.display());
		return 2;
	}
	let Ok(_writer) = std::fs::OpenOptions::new().write(true).open(hooked.join("h")) else {
		println!("BUSY machinery: cannot open the program for writing");
		return 2;
	};
	let rt = tokio::runtime::Builder::new_multi_thread().worker_threads(2).enable_all().build().expect("rt");
	let errors = rt.block_on(async {
		let command = Arc::new(Command { program: Program::Exec { prog: PathBuf::from("./h"), args: vec![] }, options: Default::default() });
		let (job, task) = start_job(command);
		let errs: Arc<std::sync::Mutex<Vec<String>>> = Arc::default();
		let e2 = errs.clone();
		job.set_error_handler(move |e| {
			e2.lock().unwrap().push(e.get().map_or_else(|| "error".to_string(), ToString::to_string));
		});
		let h2 = hooked.clone();
		job.set_spawn_hook(move |c, _| {
			c.command_mut().current_dir(&h2).env(PROBE_VAR, PROBE_VAL);
		});
		job.start().await;
		let _ = tokio::time::timeout(Duration::from_secs(10), job.to_wait()).await;
		tokio::time::sleep(Duration::from_millis(300)).await;
		job.delete_now().await;
		let _ = tokio::time::timeout(Duration::from_secs(10), task).await;
		let n = errs.lock().unwrap().len();
		n
	});
	rt.shutdown_timeout(Duration::from_secs(2));
	println!("BUSY errors={errors} ran_in_hooked={} ran_elsewhere={}", hooked.join("dump.json").exists(), elsewhere.join("dump.json").exists());
	0
}

fn busy_leg(out: &mut EnumOut, helper: &Path) {
	let scratch = Scratch::new("c18-busy");
	let root = scratch.path().to_path_buf();
	for d in ["hooked", "elsewhere"] {
		let _ = std::fs::create_dir_all(root.join(d));
		if std::fs::copy(helper, root.join(d).join("h")).is_err() {
			out.extra.insert("busy_executable_leg".into(), json!("skipped: cannot copy the helper"));
			return;
		}
	}
	let Ok(exe) = std::env::current_exe() else { return };
	let mut cmd = std::process::Command::new(exe);
	cmd.args(["C18", "--busy-leg", &root.to_string_lossy()]);
	let Some(o) = dex::orch::output_with_timeout(cmd, 60) else {
		out.extra.insert("busy_executable_leg".into(), json!("not completed within its wall limit"));
		return;
	};
	let text = String::from_utf8_lossy(&o.stdout).to_string();
	let line = text.lines().find(|l| l.starts_with("BUSY ")).unwrap_or("").to_string();
	out.states += 1;
	out.evaluations += 1;
	out.extra.insert("busy_executable_leg".into(), json!(line));
	if line.contains("machinery") || line.is_empty() {
		return;
	}
	if line.contains("ran_elsewhere=true") {
		out.violate(
			"C18/spawn-hook/child-spawned-without-the-hook/after-a-failed-spawn",
			format!("program ./h, spawn hook sets the working directory to hooked/ (where ./h is busy) and {PROBE_VAR}: a process ran in the supervisor's own directory instead — {line}"),
			json!({"layer": "busy"}),
		);
	}
	if line.contains("ran_in_hooked=true") {
		// it ran where the hook sent it (the file was not busy after all): check the env too
		let d: Value = std::fs::read_to_string(root.join("hooked/dump.json")).ok().and_then(|s| serde_json::from_str(&s).ok()).unwrap_or(Value::Null);
		if bytes_of(&d["probe"]).as_deref() != Some(PROBE_VAL.as_bytes()) {
			out.violate("C18/spawn-hook/env-not-applied/busy-leg", line, json!({"layer": "busy"}));
		}
	}
}

// ---------------------------------------------------------------------------------------------
// CLI

fn cli_argv(c: &CliCase, dir: &Path) -> Vec<OsString> {
	let d = dir.as_os_str().to_os_string();
	let mut a: Vec<OsString> = vec!["watchexec".into(), "--project-origin".into(), d.clone(), "--workdir".into(), d.clone(), "-w".into(), d];
	match c.mode.as_str() {
		"default" => {}
		m => a.push(m.into()),
	}
	match c.wrap.as_str() {
		"default" => {}
		"no-process-group" => a.push("--no-process-group".into()),
		w => a.push(format!("--wrap-process={w}").into()),
	}
	a.push("--".into());
	a.extend(c.words.iter().map(OsString::from));
	a
}

async fn cli_case(c: &CliCase, dir: &Path) -> Vec<(String, String)> {
	let env_shell = std::env::var("SHELL").ok();
	let Some((spec, o)) = model_cli(c, env_shell.as_deref()) else { return vec![] };
	let mut v = vec![];
	let argv = cli_argv(c, dir);
	let cmd = match watchexec_cli::verif::args_from(argv.clone()).await {
		Ok(args) => match watchexec_cli::verif::interpret_command_args(&args) {
			Ok(cmd) => cmd,
			Err(e) => {
				v.push((format!("C18/cli/{}/rejected", spec.mode()), format!("{argv:?}: {e}")));
				return v;
			}
		},
		Err(e) => {
			v.push((format!("C18/cli/{}/rejected", spec.mode()), format!("{argv:?}: {e}")));
			return v;
		}
	};
	let seen = observe(&cmd);
	check_seen("cli", &spec, o, &seen, &mut v);
	for x in &mut v {
		x.1 = format!("{argv:?}: {}", x.1);
	}
	v
}

// ---------------------------------------------------------------------------------------------
// enumeration

/// all vectors of length <= max over the given token indices
fn vectors(idx: &[usize], max: usize) -> Vec<Vec<String>> {
	let mut out: Vec<Vec<String>> = vec![vec![]];
	let mut layer: Vec<Vec<String>> = vec![vec![]];
	for _ in 0..max {
		let mut next = vec![];
		for v in &layer {
			for i in idx {
				let mut w = v.clone();
				w.push(TOK[*i].to_string());
				next.push(w);
			}
		}
		out.extend(next.iter().cloned());
		layer = next;
	}
	out
}

#[derive(Clone)]
enum Work {
	Respawn(Respawn, Hook),
	/// one Exec spec, all four option combinations
	InspectExec(Spec),
	/// shell options + program option fixed; inner loop over command x args x options
	InspectShell { options: Vec<String>, program_option: Option<String>, args_tokens: Vec<usize>, args_max: usize },
	Spawn(Spec, Opts, Hook),
	Cli(CliCase),
}

fn shuffle<T>(v: &mut [T], seed: u64) {
	let mut s = seed ^ 0x9E37_79B9_7F4A_7C15;
	for i in (1..v.len()).rev() {
		s = s.wrapping_mul(6364136223846793005).wrapping_add(1442695040888963407);
		v.swap(i, ((s >> 33) as usize) % (i + 1));
	}
}

fn bump(out: &mut EnumOut, k: &str) {
	let n = out.extra.get(k).and_then(Value::as_u64).unwrap_or(0) + 1;
	out.extra.insert(k.to_string(), json!(n));
}

fn spawn_input(spec: &Spec, o: Opts, hook: Hook) -> Value {
	json!({"layer": "spawn", "spec": spec.with_prog(HELPER_MARK), "opts": o, "hook": hook})
}

pub fn replay(input: &Value) -> Vec<(String, String)> {
	let bad = |m: &str| vec![("C18/replay/bad-input".to_string(), m.to_string())];
	match input["layer"].as_str().unwrap_or("") {
		"inspect" => {
			let (Ok(spec), Ok(o)) = (serde_json::from_value::<Spec>(input["spec"].clone()), serde_json::from_value::<Opts>(input["opts"].clone())) else {
				return bad("spec/opts");
			};
			inspect(&spec, o)
		}
		"spawn" => {
			let (Ok(spec), Ok(o), Ok(hook)) = (
				serde_json::from_value::<Spec>(input["spec"].clone()),
				serde_json::from_value::<Opts>(input["opts"].clone()),
				serde_json::from_value::<Hook>(input["hook"].clone()),
			) else {
				return bad("spec/opts/hook");
			};
			let helper = match helper_path() {
				Ok(h) => h,
				Err(e) => return vec![("C18/replay/machinery".into(), e)],
			};
			let scratch = Scratch::new("c18r");
			let rt = tokio::runtime::Builder::new_current_thread().enable_all().build().expect("runtime");
			match rt.block_on(spawn_case(&spec, o, hook, &scratch.path().join("c"), &helper, &my_ids())) {
				Ok((v, _)) => v,
				Err(e) => vec![("C18/replay/machinery".into(), e)],
			}
		}
		"busy" => {
			let helper = match helper_path() {
				Ok(h) => h,
				Err(e) => return vec![("C18/replay/machinery".into(), e)],
			};
			let mut o = EnumOut::new("replay");
			busy_leg(&mut o, &helper);
			o.violations.into_iter().map(|c| (c.key, c.detail)).collect()
		}
		"respawn" => {
			let (Ok(path), Ok(hook)) = (serde_json::from_value::<Respawn>(input["path"].clone()), serde_json::from_value::<Hook>(input["hook"].clone())) else {
				return bad("path/hook");
			};
			let helper = match helper_path() {
				Ok(h) => h,
				Err(e) => return vec![("C18/replay/machinery".into(), e)],
			};
			let scratch = Scratch::new("c18r");
			let rt = tokio::runtime::Builder::new_current_thread().enable_all().build().expect("runtime");
			match rt.block_on(respawn_case(path, hook, &scratch.path().join("r"), &helper)) {
				Ok(v) => v,
				Err(e) => vec![("C18/replay/machinery".into(), e)],
			}
		}
		"cli" => {
			let Ok(c) = serde_json::from_value::<CliCase>(input["case"].clone()) else { return bad("case") };
			let scratch = Scratch::new("c18r");
			let rt = tokio::runtime::Builder::new_current_thread().enable_all().build().expect("runtime");
			rt.block_on(cli_case(&c, scratch.path()))
		}
		_ => bad("layer"),
	}
}

pub fn run(tier: Tier, seed: u64) -> EnumOut {
	let rule = "a case is non-trivial when the command carries at least one string after the program; distinct by (leg, exec/shell, placement, hook, number of strings, set of token kinds present, program option present)";
	let helper = match helper_path() {
		Ok(h) => h,
		Err(e) => {
			let mut o = EnumOut::new(rule);
			o.machinery = Some(e);
			return o;
		}
	};
	let thorough = tier == Tier::Thorough;
	let all: Vec<usize> = (0..TOK.len()).collect();
	let mut work: Vec<Work> = vec![];

	// inspect / exec: all vectors <= 3 over 12 tokens x 3 program names
	for prog in ["/bin/echo", "a b", "\u{e9}"] {
		for args in vectors(&all, 3) {
			work.push(Work::InspectExec(Spec::Exec { prog: prog.to_string(), args }));
		}
	}
	// inspect / shell
	let (sh_tokens, progopts): (Vec<usize>, Vec<Option<String>>) =
		if thorough { (all.clone(), vec![Some("-c".into()), None, Some("/C".into())]) } else { (TOK_Q.to_vec(), vec![Some("-c".into()), None]) };
	for options in vectors(&sh_tokens, 2) {
		for po in &progopts {
			work.push(Work::InspectShell { options: options.clone(), program_option: po.clone(), args_tokens: sh_tokens.clone(), args_max: 2 });
		}
	}
	// real spawn / exec: every vector of length <= 2 (thorough: <= 3)
	let placements3 = [OPTS4[0], OPTS4[1], OPTS4[2]];
	for args in vectors(&all, if thorough { 3 } else { 2 }) {
		let n = args.len();
		let spec = Spec::Exec { prog: HELPER_MARK.into(), args };
		for o in if thorough { &OPTS4[..] } else { &placements3[..] } {
			work.push(Work::Spawn(spec.clone(), *o, Hook::Sync));
			if n <= if thorough { 2 } else { 1 } {
				work.push(Work::Spawn(spec.clone(), *o, Hook::None));
				work.push(Work::Spawn(spec.clone(), *o, Hook::Async));
			}
		}
	}
	// real spawn / shell (the helper plays the shell): options <= 1, args <= 1, every command token
	let sp_tokens: Vec<usize> = if thorough { all.clone() } else { vec![0, 2, 6, 7] };
	for options in vectors(&sp_tokens, 1) {
		for po in [Some("-c".to_string()), None] {
			for command in TOK {
				for args in vectors(&sp_tokens, 1) {
					let small = |v: &Vec<String>| v.iter().all(|s| ["", "a b", "*", "\n"].contains(&s.as_str()));
					let plain = (options.is_empty() && args.is_empty()) || (thorough && small(&options) && small(&args));
					let spec = Spec::Shell { prog: HELPER_MARK.into(), options: options.clone(), program_option: po.clone(), command: command.to_string(), args };
					for o in placements3 {
						work.push(Work::Spawn(spec.clone(), o, Hook::Sync));
						if plain {
							work.push(Work::Spawn(spec.clone(), o, Hook::None));
							work.push(Work::Spawn(spec.clone(), o, Hook::Async));
						}
					}
				}
			}
		}
	}
	// real spawn / every replacement path x hook kind
	for r in RESPAWNS {
		for h in [Hook::Sync, Hook::Async, Hook::None] {
			work.push(Work::Respawn(r, h));
		}
	}
	// CLI
	let modes = ["-n", "--shell=none", "--shell=bash", "--shell=bash -x", "--shell=zsh -x -o shwordsplit", "--shell=bash  -x", "default"];
	let wraps = ["default", "group", "session", "none", "no-process-group"];
	for words in vectors(&all, if thorough { 4 } else { 3 }).into_iter().filter(|w| !w.is_empty()) {
		for mode in modes {
			for wrap in wraps {
				work.push(Work::Cli(CliCase { mode: mode.into(), wrap: wrap.into(), words: words.clone() }));
			}
		}
	}

	shuffle(&mut work, seed);
	let scratch = Scratch::new("c18");
	let me = my_ids();
	let threads = std::env::var("VERIF_WORKERS").ok().and_then(|s| s.parse().ok()).unwrap_or(16);
	let worker = |chunk: &[Work], ti: usize| {
		let mut out = EnumOut::new(rule);
		let rt = tokio::runtime::Builder::new_current_thread().enable_all().build().expect("runtime");
		let tdir = scratch.path().join(format!("t{ti}"));
		let _ = std::fs::create_dir_all(&tdir);
		let mark = |out: &mut EnumOut, leg: &str, spec: &Spec, o: Opts, hook: Hook| {
			let (m, n) = spec.mask();
			if n > 0 {
				out.nontrivial_mark((leg, spec.mode(), o.grouped, o.session, hook as u8, n, m));
			}
		};
		for w in chunk {
			match w {
				Work::InspectExec(spec) => {
					for o in OPTS4 {
						out.states += 1;
						out.evaluations += 1;
						bump(&mut out, "inspect_exec_cases");
						let v = inspect(spec, o);
						mark(&mut out, "inspect", spec, o, Hook::None);
						for (k, d) in v {
							out.violate(k, d, json!({"layer": "inspect", "spec": spec, "opts": o}));
						}
					}
				}
				Work::InspectShell { options, program_option, args_tokens, args_max } => {
					let argsv = vectors(args_tokens, *args_max);
					for command in TOK {
						for args in &argsv {
							let spec = Spec::Shell {
								prog: "/bin/sh".into(),
								options: options.clone(),
								program_option: program_option.clone(),
								command: command.to_string(),
								args: args.clone(),
							};
							for o in OPTS4 {
								out.states += 1;
								out.evaluations += 1;
								bump(&mut out, "inspect_shell_cases");
								let v = inspect(&spec, o);
								mark(&mut out, "inspect", &spec, o, Hook::None);
								for (k, d) in v {
									out.violate(k, d, json!({"layer": "inspect", "spec": spec, "opts": o}));
								}
							}
						}
					}
				}
				Work::Spawn(spec, o, hook) => {
					out.states += 1;
					out.evaluations += 1;
					bump(&mut out, "processes_spawned");
					let mut res = rt.block_on(spawn_case(spec, *o, *hook, &tdir.join("c"), &helper, &me));
					if res.is_err() {
						// one retry: a stalled fork on an overloaded machine is not a verdict
						bump(&mut out, "spawn_retries_after_timeout");
						res = rt.block_on(spawn_case(spec, *o, *hook, &tdir.join("c2"), &helper, &me));
					}
					match res {
						Ok((v, seen)) => {
							mark(&mut out, "spawn", spec, *o, *hook);
							let pick = match spec {
								Spec::Exec { args, .. } => *hook == Hook::Sync && o.grouped && !o.session && args.len() == 2 && args[0] == "a b" && args[1] == "*",
								Spec::Shell { options, program_option, command, args, .. } => {
									*hook == Hook::Async && o.session && options.is_empty() && program_option.is_some() && command == "$HOME" && args.is_empty()
								}
							};
							if pick {
								out.sample(json!({"leg": "spawn", "spec": spec, "opts": o, "hook": hook, "child_reported": seen, "violations": v.len()}));
							}
							for (k, d) in v {
								out.violate(k, d, spawn_input(spec, *o, *hook));
							}
						}
						Err(e) => out.machinery = Some(e),
					}
				}
				Work::Respawn(r, hook) => {
					out.states += 1;
					out.evaluations += 1;
					bump(&mut out, "respawn_path_cases");
					let mut res = rt.block_on(respawn_case(*r, *hook, &tdir.join("r"), &helper));
					if res.is_err() {
						bump(&mut out, "spawn_retries_after_timeout");
						res = rt.block_on(respawn_case(*r, *hook, &tdir.join("r2"), &helper));
					}
					match res {
						Ok(v) => {
							out.nontrivial_mark(("respawn", format!("{r:?}"), *hook as u8));
							for (k, d) in v {
								out.violate(k, d, json!({"layer": "respawn", "path": r, "hook": hook}));
							}
						}
						Err(e) => out.machinery = Some(e),
					}
				}
				Work::Cli(c) => {
					out.states += 1;
					out.evaluations += 1;
					bump(&mut out, "cli_cases");
					let v = rt.block_on(cli_case(c, &tdir));
					if let Some((spec, o)) = model_cli(c, std::env::var("SHELL").ok().as_deref()) {
						mark(&mut out, "cli", &spec, o, Hook::None);
						if v.is_empty() && c.words.len() == 2 && c.words[0] == "x" && c.words[1] == "a b" && c.wrap == "default" && (c.mode == "-n" || c.mode == "--shell=bash -x") {
							out.sample(json!({"leg": "cli", "case": c, "expected_argv": model_argv(&spec).iter().map(|a| String::from_utf8_lossy(a).into_owned()).collect::<Vec<_>>(), "result": "match"}));
						}
					} else {
						bump(&mut out, "cli_cases_unspecified_by_environment");
					}
					for (k, d) in v {
						out.violate(k, d, json!({"layer": "cli", "case": c}));
					}
				}
			}
		}
		out
	};
	// forking from many threads at once contends on the address-space lock: the spawn leg runs
	// on at most 4 threads, everything else on all of them
	let (spawns, rest): (Vec<Work>, Vec<Work>) = work.into_iter().partition(|w| matches!(w, Work::Spawn(..) | Work::Respawn(..)));
	let t0 = std::time::Instant::now();
	let mut out = par_map(&rest, threads, &worker);
	let t1 = std::time::Instant::now();
	out.merge(par_map(&spawns, threads.min(4), &worker));
	out.extra.insert("wall_s_inspect_and_cli".into(), json!(((t1 - t0).as_secs_f64() * 10.0).round() / 10.0));
	out.extra.insert("wall_s_real_spawn".into(), json!((t1.elapsed().as_secs_f64() * 10.0).round() / 10.0));
	busy_leg(&mut out, &helper);
	out.rule = rule.to_string();
	out.assumptions = vec![
		"Linux: pid / pgid / sid read by the child from /proc/self/stat".into(),
		"strings are UTF-8 (the Command API takes String); NUL cannot occur in an argument".into(),
		format!("default-shell CLI cases use $SHELL={:?} of the checking process", std::env::var("SHELL").ok()),
	];
	let shell = Spec::Shell { prog: "sh".into(), options: vec!["-x".into()], program_option: Some("-c".into()), command: "echo $HOME".into(), args: vec!["--".into(), "a b".into()] };
	out.sample(json!({"leg": "inspect", "spec": shell, "expected_argv": model_argv(&shell).iter().map(|a| String::from_utf8_lossy(a).into_owned()).collect::<Vec<_>>(), "violations": inspect(&shell, OPTS4[1]).len()}));
	out
}
