//! ENUM checks: C03 C11 C14 C16 C17 C18 C19 C20.
mod common;
mod c03;
mod c11;
mod c14;
mod c16;
mod c17;
mod c18;
mod c19;
mod c20;

use std::time::Instant;

use dex::orch;

fn main() {
	let argv: Vec<String> = std::env::args().skip(1).collect();
	let args = orch::parse_args(&argv);
	let Some(prop) = args.rest.first().cloned() else {
		eprintln!("usage: h-enum <Cxx> [--tier quick|thorough] [--replay file]");
		std::process::exit(2);
	};
	let t0 = Instant::now();
	if prop == "C18" && args.rest.get(1).map(String::as_str) == Some("--busy-leg") {
		std::process::exit(c18::busy_child(args.rest.get(2).map_or("", String::as_str)));
	}
	if prop == "C20" && args.rest.get(1).map(String::as_str) == Some("--chroot-leg") {
		std::process::exit(c20::chroot_child(args.rest.get(2).map_or("", String::as_str)));
	}
	if let Some(path) = &args.replay {
		let v: orch::ViolationRec = match std::fs::read_to_string(path).ok().and_then(|s| serde_json::from_str(&s).ok()) {
			Some(v) => v,
			None => {
				eprintln!("cannot read replay file {}", path.display());
				std::process::exit(2);
			}
		};
		let res = match prop.as_str() {
			"C03" => c03::replay(&v.scenario),
			"C11" => c11::replay(&v.scenario),
			"C14" => c14::replay(&v.scenario),
			"C16" => c16::replay(&v.scenario),
			"C17" => c17::replay(&v.scenario),
			"C18" => c18::replay(&v.scenario),
			"C19" => c19::replay(&v.scenario),
			"C20" => c20::replay(&v.scenario),
			_ => {
				eprintln!("unknown property {prop}");
				std::process::exit(2);
			}
		};
		println!("input: {}", v.scenario);
		if res.is_empty() {
			println!("replay: no violation");
			std::process::exit(0);
		}
		for (k, d) in res {
			println!("violated: {k}: {d}");
		}
		println!("VIOLATION property={prop} replay={}", path.display());
		std::process::exit(1);
	}
	let out = match prop.as_str() {
		"C03" => c03::run(args.tier, args.seed),
		"C11" => c11::run(args.tier, args.seed),
		"C14" => c14::run(args.tier, args.seed),
		"C16" => c16::run(args.tier, args.seed),
		"C17" => c17::run(args.tier, args.seed),
		"C18" => c18::run(args.tier, args.seed),
		"C19" => c19::run(args.tier, args.seed),
		"C20" => c20::run(args.tier, args.seed),
		_ => {
			eprintln!("unknown property {prop}");
			std::process::exit(2);
		}
	};
	std::process::exit(common::finish(&prop, args.tier, args.seed, t0, out));
}
