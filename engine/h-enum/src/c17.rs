//! C17 — path summaries handed to commands are faithful.
//!
//! Event shapes (440 + 41): paths in {none, each of 7 single paths, 6 chosen pairs} from a
//! universe with shared and disjoint prefixes, string-prefix siblings (`/r/a`, `/r/ab`,
//! `/r/a.b`), a directory equal to the eventual common prefix and a duplicate pair; kinds in
//! {none, each of 7 representatives (one per variable, plus Access(Close(Write)) and Other),
//! 3 chosen pairs}; file type in {unknown, file, dir} for all paths of the shape. In addition
//! every one of the 41 `FileEventKind` values on one fixed path (to cover the whole kind ->
//! variable table). Batches: every sequence of <= 2 shapes (thorough <= 3) of the 440.
//!
//! Real code: `watchexec::paths::summarise_events_to_env`, the CLI's `emits_to_environment`
//! (batches of <= 2) and `events_to_simple_format`.
//!
//! Reference (EnvSummary), written from the statement, the doc comment of
//! `summarise_events_to_env` and doc/watchexec.1.md:
//!   A  for every (event, path, kind): some entry of the kind's variable joins with COMMON to
//!      exactly that path (component-wise path equality);
//!   B  every entry of every variable joins with COMMON to a path that an event with a kind of
//!      that variable carried; no variable other than the documented seven exists;
//!   C  the entries of a variable are strictly increasing in byte order (sorted, de-duplicated);
//!   D  COMMON = longest common directory of the pathed events (a path typed `dir` stands for
//!      itself, any other path for its parent) when every pathed event carries a kind; COMMON
//!      is absent when no event carries a path. When some pathed event has no kind the exact
//!      value of COMMON is left open by the statement and only A/B are demanded.
//!   simple format: the output is, event by event in batch order, exactly one line
//!      `<label>:<path>` per (kind, path) pair of the event (one `other:` line per path for a
//!      kindless event); the order of lines *within* one event is not demanded.
//!
//! Deviations / exclusions:
//!   * line labels: the manual lists create/remove/rename/modify/other for the text format
//!     while the JSON `simple` vocabulary is access/create/modify/remove/other; the statement
//!     fixes neither, so a rename kind may be labelled `rename` or `modify`, an access kind
//!     `access` or `other`.
//!   * only absolute UTF-8 paths without `:` or newline (what watchexec's sources produce and
//!     what the `:`-joined format can carry at all).
//!   * the set of distinct outcomes (`distinct_nontrivial`) is collected over batches of <= 2
//!     events only, to bound memory in the thorough tier.

use std::{
	collections::HashMap,
	ffi::OsString,
	path::{Path, PathBuf},
	time::{Duration, Instant},
};

use dex::orch::Tier;
use serde_json::{json, Value};
use watchexec::paths::summarise_events_to_env;
use watchexec_cli::verif::{emits_to_environment, events_to_simple_format};
use watchexec_events::{filekind::FileEventKind, Event, FileType, Source, Tag};

use crate::{
	c16::fs_table,
	common::{par_map, EnumOut},
};

const VARS: [&str; 6] = ["CREATED", "META_CHANGED", "REMOVED", "RENAMED", "WRITTEN", "OTHERWISE_CHANGED"];

const PATHS: [&str; 7] = ["/r/a/b", "/r/a.b", "/r/a", "/r/a/c/d", "/x/y", "/r", "/r/ab"];
const PATH_PAIRS: [(usize, usize); 6] = [(0, 0), (0, 3), (0, 1), (2, 0), (0, 4), (5, 6)];
const KIND_REPS: [&str; 7] =
	["Create(File)", "Modify(Metadata(Permissions))", "Remove(Folder)", "Modify(Name(Both))", "Modify(Data(Content))", "Access(Close(Write))", "Other"];
const KIND_PAIRS: [(&str, &str); 3] = [("Create(File)", "Modify(Data(Content))"), ("Modify(Data(Content))", "Access(Close(Write))"), ("Remove(Folder)", "Any")];

/// documented kind -> variable table (doc comment of `summarise_events_to_env`), on names
fn var_of(name: &str) -> usize {
	let v = if name.starts_with("Create(") {
		"CREATED"
	} else if name.starts_with("Modify(Metadata(") {
		"META_CHANGED"
	} else if name.starts_with("Remove(") {
		"REMOVED"
	} else if name.starts_with("Modify(Name(") {
		"RENAMED"
	} else if name.starts_with("Modify(Data(") || name == "Access(Close(Write))" {
		"WRITTEN"
	} else {
		"OTHERWISE_CHANGED"
	};
	VARS.iter().position(|x| *x == v).unwrap()
}

/// acceptable line labels of the text format
fn labels_of(name: &str) -> &'static [&'static str] {
	if name.starts_with("Create(") {
		&["create"]
	} else if name.starts_with("Remove(") {
		&["remove"]
	} else if name.starts_with("Modify(Name(") {
		&["rename", "modify"]
	} else if name.starts_with("Modify(") {
		&["modify"]
	} else if name.starts_with("Access(") {
		&["access", "other"]
	} else {
		&["other"]
	}
}

struct Shape {
	spec: Value,
	event: Event,
	paths: Vec<PathBuf>,
	/// components of the directory each path stands for (D)
	dirs: Vec<Vec<String>>,
	/// (variable index, acceptable labels, name) per kind
	kinds: Vec<(usize, &'static [&'static str], String)>,
}

fn build_shape(spec: &Value, table: &[(String, FileEventKind, &'static str)]) -> Option<Shape> {
	let ft = match spec["ft"].as_str() {
		None => None,
		Some("file") => Some(FileType::File),
		Some("dir") => Some(FileType::Dir),
		Some(_) => return None,
	};
	let mut tags = vec![Tag::Source(Source::Filesystem)];
	let mut paths = vec![];
	let mut dirs = vec![];
	for p in spec["paths"].as_array()? {
		let p = p.as_str()?;
		if !p.starts_with('/') || p.contains(':') || p.contains('\n') {
			return None;
		}
		tags.push(Tag::Path { path: PathBuf::from(p), file_type: ft });
		paths.push(PathBuf::from(p));
		let mut comps: Vec<String> = p.split('/').filter(|c| !c.is_empty()).map(str::to_string).collect();
		if ft != Some(FileType::Dir) {
			comps.pop(); // the containing directory ("/" stays "/")
		}
		dirs.push(comps);
	}
	let mut kinds = vec![];
	for k in spec["kinds"].as_array()? {
		let name = k.as_str()?;
		let (_, kind, _) = table.iter().find(|(n, _, _)| n == name)?;
		tags.push(Tag::FileEventKind(*kind));
		kinds.push((var_of(name), labels_of(name), name.to_string()));
	}
	Some(Shape { spec: spec.clone(), event: Event { tags, metadata: HashMap::new() }, paths, dirs, kinds })
}

fn shape_specs() -> Vec<Value> {
	let mut path_sets: Vec<(Vec<&str>, Vec<Option<&str>>)> = vec![(vec![], vec![None])];
	let fts = vec![None, Some("file"), Some("dir")];
	for p in PATHS {
		path_sets.push((vec![p], fts.clone()));
	}
	for (a, b) in PATH_PAIRS {
		path_sets.push((vec![PATHS[a], PATHS[b]], fts.clone()));
	}
	let mut kind_sets: Vec<Vec<&str>> = vec![vec![]];
	for k in KIND_REPS {
		kind_sets.push(vec![k]);
	}
	for (a, b) in KIND_PAIRS {
		kind_sets.push(vec![a, b]);
	}
	let mut v = vec![];
	for (ps, fts) in &path_sets {
		for ft in fts {
			for ks in &kind_sets {
				v.push(json!({"paths": ps, "kinds": ks, "ft": ft}));
			}
		}
	}
	v
}

fn matchable(expected: &[(&'static [&'static str], &str)], actual: &[(&str, &str)], used: &mut Vec<bool>, i: usize) -> bool {
	if i == expected.len() {
		return true;
	}
	for j in 0..actual.len() {
		if !used[j] && actual[j].1 == expected[i].1 && expected[i].0.contains(&actual[j].0) {
			used[j] = true;
			if matchable(expected, actual, used, i + 1) {
				return true;
			}
			used[j] = false;
		}
	}
	false
}

struct Outcome {
	violations: Vec<(String, String)>,
	env: Vec<(String, String)>,
	text: String,
	evaluations: u64,
}

/// One batch through the real functions and the reference.
fn check_batch(batch: &[&Shape], with_cli_env: bool) -> Outcome {
	let mut v: Vec<(String, String)> = vec![];
	let events: Vec<Event> = batch.iter().map(|s| s.event.clone()).collect();
	let mut evaluations = 1;
	let real: HashMap<&'static str, OsString> = summarise_events_to_env(events.iter());
	let mut env: Vec<(String, String)> = real.iter().map(|(k, v)| ((*k).to_string(), v.to_string_lossy().into_owned())).collect();
	env.sort();
	let show = |v: &Vec<(String, String)>| format!("{v:?}");

	// reference: what each variable must account for
	let mut carried: [Vec<&Path>; 6] = Default::default();
	let (mut any_path, mut kindless_pathed) = (false, false);
	let mut lcd: Option<Vec<&str>> = None;
	for s in batch {
		if s.paths.is_empty() {
			continue;
		}
		any_path = true;
		if s.kinds.is_empty() {
			kindless_pathed = true;
		}
		for d in &s.dirs {
			lcd = Some(match lcd {
				None => d.iter().map(String::as_str).collect(),
				Some(cur) => cur.iter().zip(d.iter()).take_while(|(a, b)| **a == b.as_str()).map(|(a, _)| *a).collect(),
			});
		}
		for (var, _, _) in &s.kinds {
			for p in &s.paths {
				if !carried[*var].contains(&p.as_path()) {
					carried[*var].push(p.as_path());
				}
			}
		}
	}

	for k in real.keys() {
		if *k != "COMMON" && !VARS.contains(k) {
			v.push(("C17/env/undocumented-variable".into(), format!("variable {k} in {}", show(&env))));
		}
	}
	let common: Option<PathBuf> = real.get("COMMON").map(PathBuf::from);
	let join = |entry: &str| -> PathBuf { common.as_ref().map_or_else(|| PathBuf::from(entry), |c| c.join(entry)) };

	for (i, var) in VARS.iter().enumerate() {
		let entries: Vec<&str> = match real.get(var) {
			None => vec![],
			Some(val) => match val.to_str() {
				Some(s) => s.split(':').collect(),
				None => {
					v.push((format!("C17/env/not-utf8/{var}"), format!("{var} is not UTF-8 although all paths are: {val:?}")));
					vec![]
				}
			},
		};
		let joined: Vec<PathBuf> = entries.iter().map(|e| join(e)).collect();
		// A
		for p in &carried[i] {
			if !joined.iter().any(|j| j.as_path() == *p) {
				v.push((
					format!("C17/env/path-not-recoverable/{var}"),
					format!("an event of a {var} kind carries {} but no entry of {var} joins with COMMON to it: {}", p.display(), show(&env)),
				));
			}
		}
		// B
		for (e, j) in entries.iter().zip(&joined) {
			if !carried[i].iter().any(|p| *p == j.as_path()) {
				v.push((
					format!("C17/env/entry-without-event/{var}"),
					format!("{var} lists {e:?} (= {}) but no event of a {var} kind carries that path: {}", j.display(), show(&env)),
				));
			}
		}
		// C
		for w in entries.windows(2) {
			if w[0].as_bytes() == w[1].as_bytes() {
				v.push((format!("C17/env/duplicate-entry/{var}"), format!("{var} lists {:?} twice: {}", w[0], show(&env))));
			} else if w[0].as_bytes() > w[1].as_bytes() {
				v.push((format!("C17/env/not-byte-sorted/{var}"), format!("{var} lists {:?} before {:?}: {}", w[0], w[1], show(&env))));
			}
		}
		for a in 0..joined.len() {
			if joined[..a].iter().any(|b| *b == joined[a]) && entries[..a].iter().all(|b| *b != entries[a]) {
				v.push((format!("C17/env/duplicate-entry/{var}"), format!("{var} lists {} under two spellings: {}", joined[a].display(), show(&env))));
			}
		}
	}
	// D
	if !any_path {
		if let Some(c) = &common {
			v.push(("C17/env/common/set-without-paths".into(), format!("COMMON = {} although no event carries a path", c.display())));
		}
	} else if !kindless_pathed {
		let want = PathBuf::from(format!("/{}", lcd.unwrap_or_default().join("/")));
		if common.as_deref() != Some(want.as_path()) {
			v.push((
				"C17/env/common/not-longest-common-directory".into(),
				format!("COMMON = {:?}, the longest common directory is {}: {}", common, want.display(), show(&env)),
			));
		}
	}

	// the CLI's wrapper must expose exactly these values under WATCHEXEC_<NAME>_PATH
	if with_cli_env {
		evaluations += 1;
		let mut cli: Vec<(String, String)> = emits_to_environment(&events).map(|e| (e.key, e.value.to_string_lossy().into_owned())).collect();
		cli.sort();
		let mut want: Vec<(String, String)> = env.iter().map(|(k, v)| (format!("WATCHEXEC_{k}_PATH"), v.clone())).collect();
		want.sort();
		if cli != want {
			v.push(("C17/env/cli-variables-differ".into(), format!("emits_to_environment gives {cli:?}, the summary is {want:?}")));
		}
	}

	// simple format
	evaluations += 1;
	let text = match events_to_simple_format(&events) {
		Ok(t) => t,
		Err(e) => {
			v.push(("C17/simple/failed".into(), format!("events_to_simple_format failed: {e}")));
			String::new()
		}
	};
	if !text.is_empty() && !text.ends_with('\n') {
		v.push(("C17/simple/unterminated-line".into(), format!("{text:?}")));
	}
	let lines: Vec<(&str, &str)> = text.lines().map(|l| l.split_once(':').unwrap_or(("", l))).collect();
	let mut pos = 0;
	for (ei, s) in batch.iter().enumerate() {
		let mut expected: Vec<(&'static [&'static str], &str)> = vec![];
		for p in &s.paths {
			let ps = p.to_str().unwrap_or("");
			if s.kinds.is_empty() {
				expected.push((&["other"], ps));
			}
			for (_, labels, _) in &s.kinds {
				expected.push((labels, ps));
			}
		}
		let end = pos + expected.len();
		if end > lines.len() {
			v.push(("C17/simple/too-few-lines".into(), format!("event #{ei} needs {} lines, output has {} in all: {text:?}", expected.len(), lines.len())));
			pos = lines.len();
			break;
		}
		let actual = &lines[pos..end];
		let mut used = vec![false; actual.len()];
		if !matchable(&expected, actual, &mut used, 0) {
			let class = if s.kinds.is_empty() { "kindless".to_string() } else { s.kinds.iter().map(|k| k.1[0]).collect::<Vec<_>>().join("+") };
			v.push((
				format!("C17/simple/lines-of-event-wrong/{class}"),
				format!("event #{ei} ({}) should give one line per (kind, path) pair {expected:?}, got {actual:?} in {text:?}", s.spec),
			));
		}
		pos = end;
	}
	if pos < lines.len() {
		v.push(("C17/simple/too-many-lines".into(), format!("{} lines beyond the (kind, path) pairs of the batch: {text:?}", lines.len() - pos)));
	}

	v.sort();
	v.dedup_by(|a, b| a.0 == b.0);
	Outcome { violations: v, env, text, evaluations }
}

/// Events-file leg (`--emit-events-to=file`): the file handed to the command holds exactly
/// the line format of the current batch — also for the batch after one whose temporary file
/// could be created, when creating the next one fails (the directory vanished): either the
/// hand-over fails, or the file is right; never the previous file patched up.
fn events_file_leg(out: &mut EnumOut) {
	use watchexec_cli::verif::{emits_to_file, RotatingTempFile};
	let scratch = crate::common::Scratch::new("c17-file");
	let dir = scratch.path().join("tmp-a");
	let _ = std::fs::create_dir_all(&dir);
	// WATCHEXEC_TMPDIR is process-global: this leg runs alone, after the parallel part
	std::env::set_var("WATCHEXEC_TMPDIR", &dir);
	let ev = |p: &str| Event {
		tags: vec![
			Tag::Source(Source::Filesystem),
			Tag::FileEventKind(FileEventKind::Create(watchexec_events::filekind::CreateKind::File)),
			Tag::Path { path: PathBuf::from(p), file_type: Some(FileType::File) },
		],
		metadata: Default::default(),
	};
	let batches = [vec![ev("/w/first-batch/a-rather-long-name.txt"), ev("/w/first-batch/b.txt")], vec![ev("/w/second.txt")], vec![]];
	let mut cases = 0u64;
	// a healthy sequence first: five batches through one rotating file (what an earlier batch
	// left behind must never show up in a later hand-over)
	{
		let hdir = scratch.path().join("tmp-h");
		let _ = std::fs::create_dir_all(&hdir);
		std::env::set_var("WATCHEXEC_TMPDIR", &hdir);
		let target = RotatingTempFile::default();
		let seq = [
			vec![ev("/w/one/alpha.txt")],
			vec![ev("/w/two/bravo-with-a-longer-name.txt"), ev("/w/two/b2.txt")],
			vec![ev("/w/three/charlie.txt")],
			vec![],
			vec![ev("/w/five/echo.txt")],
		];
		for (i, b) in seq.iter().enumerate() {
			cases += 1;
			out.states += 1;
			out.evaluations += 1;
			let Ok(want) = events_to_simple_format(b) else { continue };
			match emits_to_file(&target, b) {
				Err(e) => out.violate("C17/events-file/hand-over-failed", format!("batch {i} of a healthy sequence: {e}"), json!({"kind": "events-file"})),
				Ok(path) => match std::fs::read(&path) {
					Ok(bytes) if bytes == want.as_bytes() => {}
					Ok(bytes) => out.violate(
						format!("C17/events-file/content-differs/batch-{}-of-a-sequence", i + 1),
						format!("batch {} of a sequence through one events file: {} holds {:?}, the batch's line format is {want:?}", i + 1, path.display(), String::from_utf8_lossy(&bytes)),
						json!({"kind": "events-file"}),
					),
					Err(e) => out.violate("C17/events-file/unreadable", format!("batch {i}: {}: {e}", path.display()), json!({"kind": "events-file"})),
				},
			}
		}
		std::env::set_var("WATCHEXEC_TMPDIR", &dir);
	}
	let target = RotatingTempFile::default();
	for (i, b) in batches.iter().enumerate() {
		if i == 1 {
			// from now on no new temporary file can be created
			let _ = std::fs::remove_dir_all(&dir);
		}
		cases += 1;
		out.states += 1;
		out.evaluations += 1;
		let want = match events_to_simple_format(b) {
			Ok(t) => t,
			Err(e) => {
				out.violate("C17/events-file/format-failed", e.to_string(), json!({"kind": "events-file"}));
				continue;
			}
		};
		match emits_to_file(&target, b) {
			Err(_) if i >= 1 => {} // refusing is fine once the directory is gone
			Err(e) => out.violate("C17/events-file/hand-over-failed", format!("batch {i}: {e}"), json!({"kind": "events-file"})),
			Ok(path) => match std::fs::read(&path) {
				Ok(bytes) if bytes == want.as_bytes() => {}
				Ok(bytes) => out.violate(
					format!("C17/events-file/content-differs/{}", if i == 0 { "first-batch" } else { "after-failed-rotation" }),
					format!("batch {i}: the file {} handed to the command holds {:?}, the batch's line format is {want:?}", path.display(), String::from_utf8_lossy(&bytes)),
					json!({"kind": "events-file"}),
				),
				Err(e) => out.violate("C17/events-file/unreadable", format!("batch {i}: {}: {e}", path.display()), json!({"kind": "events-file"})),
			},
		}
	}
	std::env::remove_var("WATCHEXEC_TMPDIR");
	out.extra.insert("events_file_leg".into(), json!({"batches": cases}));
}

pub fn replay(input: &Value) -> Vec<(String, String)> {
	if input["kind"] == "events-file" {
		let mut o = EnumOut::new("replay");
		events_file_leg(&mut o);
		return o.violations.into_iter().map(|c| (c.key, c.detail)).collect();
	}
	let table = fs_table();
	let shapes: Option<Vec<Shape>> = input["batch"].as_array().map(|a| a.iter().map(|s| build_shape(s, &table)).collect()).unwrap_or(None);
	let Some(shapes) = shapes else {
		return vec![("C17/replay/bad-input".into(), format!("cannot rebuild the batch from {}", input["batch"]))];
	};
	let refs: Vec<&Shape> = shapes.iter().collect();
	check_batch(&refs, true).violations
}

pub fn run(tier: Tier, seed: u64) -> EnumOut {
	let deadline = Instant::now() + Duration::from_secs(match tier {
		Tier::Quick => 25,
		Tier::Thorough => 480,
	});
	let mut out = EnumOut::new(
		"every batch of up to N event shapes (N=2 quick, 3 thorough) over 440 shapes + all 41 kinds singly; real summarise_events_to_env / emits_to_environment / events_to_simple_format vs the EnvSummary reference. non-trivial = distinct (environment map, text) outcomes other than the empty one, over batches of <= 2 events",
	);
	out.assumptions = vec![
		"absolute UTF-8 paths without ':' or newline".into(),
		"COMMON is only pinned when every pathed event carries a kind (statement); line order within one event and the rename/access labels of the text format are not pinned".into(),
	];
	let table = fs_table();
	let Some(shapes) = shape_specs().iter().map(|s| build_shape(s, &table)).collect::<Option<Vec<Shape>>>() else {
		out.machinery = Some("shape grammar does not build".into());
		return out;
	};
	let n = shapes.len() as u64;
	let maxlen: u32 = match tier {
		Tier::Quick => 2,
		Tier::Thorough => 3,
	};
	out.extra.insert("event_shapes".into(), json!(n));
	out.extra.insert("max_events_per_batch".into(), json!(maxlen));
	let total: u64 = (0..=maxlen).map(|l| n.pow(l)).sum();
	let step = total.div_ceil(1024).max(1);
	let mut rs: Vec<(u64, u64)> = (0..total).step_by(step as usize).map(|a| (a, (a + step).min(total))).collect();
	let k = (seed % rs.len() as u64) as usize;
	rs.rotate_left(k); // the seed only permutes the work order

	let body = par_map(&rs, 16, |chunk, _| {
		let mut o = EnumOut::default();
		'outer: for &(a, b) in chunk {
			for idx in a..b {
				if idx % 4096 == 0 && Instant::now() > deadline {
					o.caps.push("C17 batch enumeration stopped by the wall-clock cap".into());
					break 'outer;
				}
				let mut s = idx;
				let mut len = 0u32;
				while s >= n.pow(len) {
					s -= n.pow(len);
					len += 1;
				}
				let mut batch: Vec<&Shape> = Vec::with_capacity(len as usize);
				for _ in 0..len {
					batch.push(&shapes[(s % n) as usize]);
					s /= n;
				}
				let r = check_batch(&batch, len <= 2);
				o.states += 1;
				o.evaluations += r.evaluations;
				if len <= 2 && (!r.env.is_empty() || !r.text.is_empty()) {
					o.nontrivial_mark((&r.env, &r.text));
				}
				if len == 2 && idx % 38_611 == 17 {
					o.sample(json!({"batch": batch.iter().map(|s| s.spec.clone()).collect::<Vec<_>>(), "env": r.env, "simple": r.text, "violations": r.violations.len()}));
				}
				for (k, d) in r.violations {
					o.violate(k, d, json!({"batch": batch.iter().map(|s| s.spec.clone()).collect::<Vec<_>>()}));
				}
			}
		}
		o
	});
	out.extra.insert("batches".into(), json!(body.states));
	out.merge(body);
	events_file_leg(&mut out);

	// the complete kind -> variable / label table on one path
	let mut kinds_done = 0u64;
	for (name, _, _) in &table {
		let spec = json!({"paths": ["/r/a/b"], "kinds": [name], "ft": null});
		let Some(shape) = build_shape(&spec, &table) else {
			out.machinery = Some(format!("kind {name} does not build"));
			return out;
		};
		let r = check_batch(&[&shape], true);
		kinds_done += 1;
		out.states += 1;
		out.evaluations += r.evaluations;
		out.nontrivial_mark((&r.env, &r.text));
		if name == "Access(Close(Write))" {
			out.sample(json!({"batch": [spec], "env": r.env, "simple": r.text, "violations": r.violations.len()}));
		}
		for (k, d) in r.violations {
			out.violate(k, d, json!({"batch": [spec]}));
		}
	}
	out.extra.insert("single_kind_batches".into(), json!(kinds_done));
	out.caps.sort();
	out.caps.dedup();
	out
}
