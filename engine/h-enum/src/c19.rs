//! C19 — signal names and exit statuses convert consistently.
//!
//! Complete enumeration of: every signal number 1..=64 valid on the platform and every
//! first-class signal x {short, SIG-prefixed, number} x {lower, upper, mixed case}; the
//! Windows control names; every exit code 0..=255 and every terminating signal with and
//! without the core bit; the CLI's --map-signal FROM:TO parser over the same spellings.

use std::{os::unix::process::ExitStatusExt, process::ExitStatus, str::FromStr};

use dex::orch::Tier;
use nix::sys::signal::Signal as Nix;
use serde_json::{json, Value};
use watchexec_events::ProcessEnd;
use watchexec_signals::Signal;

use crate::common::EnumOut;

fn cases(s: &str) -> Vec<String> {
	let mixed: String = s
		.chars()
		.enumerate()
		.map(|(i, c)| if i % 2 == 0 { c.to_ascii_lowercase() } else { c.to_ascii_uppercase() })
		.collect();
	let mut v = vec![s.to_ascii_lowercase(), s.to_ascii_uppercase(), mixed];
	v.dedup();
	v
}

const FIRST_CLASS: [(Signal, i32, &str); 7] = [
	(Signal::Hangup, 1, "SIGHUP"),
	(Signal::Interrupt, 2, "SIGINT"),
	(Signal::Quit, 3, "SIGQUIT"),
	(Signal::ForceStop, 9, "SIGKILL"),
	(Signal::User1, 10, "SIGUSR1"),
	(Signal::User2, 12, "SIGUSR2"),
	(Signal::Terminate, 15, "SIGTERM"),
];

/// Documented Windows control names (they take precedence over unix short names).
const WINDOWS: [(&str, Signal); 13] = [
	("CTRL-CLOSE", Signal::Hangup),
	("CTRL+CLOSE", Signal::Hangup),
	("CLOSE", Signal::Hangup),
	("CTRL-BREAK", Signal::Terminate),
	("CTRL+BREAK", Signal::Terminate),
	("BREAK", Signal::Terminate),
	("CTRL-C", Signal::Interrupt),
	("CTRL+C", Signal::Interrupt),
	("C", Signal::Interrupt),
	("KILL", Signal::ForceStop),
	("SIGKILL", Signal::ForceStop),
	("FORCE-STOP", Signal::ForceStop),
	("STOP", Signal::ForceStop),
];

fn nixnum(s: Signal) -> Option<i32> {
	s.to_nix().map(|n| n as i32)
}

/// One (kind, text) conversion case; returns violations.
fn eval(kind: &str, arg: &Value) -> Vec<(String, String)> {
	let mut v = vec![];
	match kind {
		"display-roundtrip" => {
			let n = arg.as_i64().unwrap() as i32;
			let Ok(nix) = Nix::try_from(n) else { return v };
			for sig in [Signal::from_nix(nix), Signal::Custom(n), Signal::from(n)] {
				let text = sig.to_string();
				match Signal::from_str(&text) {
					Ok(back) if nixnum(back) == Some(n) => {}
					other => v.push((
						format!("C19/display-roundtrip/{}", nix.as_str()),
						format!("{sig:?} displays as {text:?} which parses to {other:?}, expected OS signal {n}"),
					)),
				}
				if nixnum(sig) != Some(n) {
					v.push((format!("C19/number-mapping/{}", nix.as_str()), format!("{sig:?}.to_nix() = {:?}, expected {n}", nixnum(sig))));
				}
			}
		}
		"spelling" => {
			let n = arg["n"].as_i64().unwrap() as i32;
			let text = arg["text"].as_str().unwrap();
			let form = arg["form"].as_str().unwrap();
			let nix = Nix::try_from(n).unwrap();
			// documented exception: Windows control names win over the unix short name
			let expect = WINDOWS
				.iter()
				.find(|(w, _)| w.eq_ignore_ascii_case(text))
				.map_or(Some(n), |(_, s)| nixnum(*s));
			match Signal::from_str(text) {
				Ok(s) if nixnum(s) == expect => {}
				other => v.push((
					format!("C19/spelling/{}/{form}", nix.as_str()),
					format!("{text:?} parses to {other:?} (OS {:?}), expected OS signal {expect:?}", other.as_ref().ok().and_then(|s| nixnum(*s))),
				)),
			}
		}
		"first-class" => {
			let i = arg.as_u64().unwrap() as usize;
			let (sig, num, name) = FIRST_CLASS[i];
			if nixnum(sig) != Some(num) {
				v.push((format!("C19/posix-number/{name}"), format!("{sig:?} maps to {:?}, expected {num}", nixnum(sig))));
			}
			if sig.to_string() != name {
				v.push((format!("C19/display/{name}"), format!("{sig:?} displays as {}", sig)));
			}
			if Signal::from(num) != sig {
				v.push((format!("C19/from-number/{name}"), format!("Signal::from({num}) = {:?}", Signal::from(num))));
			}
		}
		"windows-name" => {
			let text = arg["text"].as_str().unwrap();
			let i = arg["i"].as_u64().unwrap() as usize;
			let (name, expect) = WINDOWS[i];
			match Signal::from_str(text) {
				Ok(s) if s == expect => {}
				other => v.push((format!("C19/windows-name/{name}"), format!("{text:?} parses to {other:?}, expected {expect:?}"))),
			}
		}
		"exit-code" => {
			let code = arg.as_i64().unwrap() as i32;
			let pe = ProcessEnd::from(ExitStatus::from_raw(code << 8));
			let ok = match pe {
				ProcessEnd::Success => code == 0,
				ProcessEnd::ExitError(c) => c.get() == i64::from(code) && code != 0,
				_ => false,
			};
			if !ok {
				v.push((format!("C19/exit-code/{}", if code == 0 { "zero" } else { "nonzero" }), format!("exit code {code} converts to {pe:?}")));
			}
		}
		"exit-signal" => {
			let s = arg["sig"].as_i64().unwrap() as i32;
			let core = arg["core"].as_bool().unwrap();
			let raw = s | if core { 0x80 } else { 0 };
			let pe = ProcessEnd::from(ExitStatus::from_raw(raw));
			let ok = match pe {
				ProcessEnd::ExitSignal(sig) => match Nix::try_from(s) {
					Ok(_) => nixnum(sig) == Some(s),
					Err(_) => sig == Signal::Custom(s),
				},
				_ => false,
			};
			if !ok {
				v.push((format!("C19/exit-signal/{s}{}", if core { "/core" } else { "" }), format!("wait status {raw:#x} (killed by {s}) converts to {pe:?}")));
			}
		}
		"map-signal" => {
			let from = arg["from"].as_str().unwrap();
			let to = arg["to"].as_str().unwrap();
			let ef: Option<i32> = arg["ef"].as_i64().map(|x| x as i32);
			let et: Option<i32> = arg["et"].as_i64().map(|x| x as i32);
			let rt = tokio::runtime::Builder::new_current_thread().enable_all().build().unwrap();
			let argv: Vec<std::ffi::OsString> =
				["watchexec".into(), "--map-signal".into(), format!("{from}:{to}").into(), "--".into(), "true".into()].to_vec();
			let res = rt.block_on(watchexec_cli::verif::args_from(argv));
			match res {
				Ok(a) => {
					let m = a.events.signal_map.first().map(|m| (nixnum(m.from), m.to.map(nixnum)));
					let want = Some((ef, if to.is_empty() { None } else { Some(et) }));
					if m != want || a.events.signal_map.len() != 1 {
						v.push((
							"C19/map-signal/wrong-mapping".into(),
							format!("--map-signal {from}:{to} gives {:?}, expected {want:?}", a.events.signal_map.iter().map(|m| (m.from, m.to)).collect::<Vec<_>>()),
						));
					}
				}
				Err(e) => v.push(("C19/map-signal/rejected".into(), format!("--map-signal {from}:{to} rejected: {e}"))),
			}
		}
		_ => {}
	}
	v
}

pub fn replay(input: &Value) -> Vec<(String, String)> {
	eval(input["kind"].as_str().unwrap_or(""), &input["arg"])
}

pub fn run(tier: Tier, _seed: u64) -> EnumOut {
	let mut out = EnumOut::new(
		"all signal numbers 1..=64 valid on the platform x {from_nix, Custom, From<i32>} display round trip; x {short, SIG-prefixed, number} x {lower, upper, mixed}; 7 first-class signals; 13 Windows names x 3 cases; exit codes 0..=255; terminating signals 1..=126 x core bit; --map-signal FROM:TO over spellings; non-trivial = distinct (kind, result) pairs",
	);
	out.assumptions = vec!["platform: Linux signal numbering (nix 0.29)".into(), "std::process::ExitStatus::from_raw as the model of OS wait statuses".into()];
	let mut cases_list: Vec<(String, Value)> = vec![];
	let mut valid = vec![];
	for n in 1..=64 {
		if let Ok(nix) = Nix::try_from(n) {
			valid.push((n, nix));
			cases_list.push(("display-roundtrip".into(), json!(n)));
			let name = nix.as_str(); // "SIGXXX"
			let short = &name[3..];
			for (form, text) in [("short", short.to_string()), ("prefixed", name.to_string())] {
				for c in cases(&text) {
					cases_list.push(("spelling".into(), json!({"n": n, "text": c, "form": form})));
				}
			}
			cases_list.push(("spelling".into(), json!({"n": n, "text": n.to_string(), "form": "number"})));
		}
	}
	out.extra.insert("platform_valid_signals".into(), json!(valid.len()));
	for i in 0..FIRST_CLASS.len() {
		cases_list.push(("first-class".into(), json!(i)));
	}
	for (i, (name, _)) in WINDOWS.iter().enumerate() {
		for c in cases(name) {
			cases_list.push(("windows-name".into(), json!({"i": i, "text": c})));
		}
	}
	for code in 0..=255 {
		cases_list.push(("exit-code".into(), json!(code)));
	}
	for s in 1..=126 {
		for core in [false, true] {
			cases_list.push(("exit-signal".into(), json!({"sig": s, "core": core})));
		}
	}
	// --map-signal: FROM x TO over spellings of a representative set (all first-class
	// signals; thorough: every valid signal as FROM), plus empty TO
	let from_set: Vec<(i32, Nix)> = match tier {
		Tier::Quick => valid.iter().copied().filter(|(n, _)| FIRST_CLASS.iter().any(|f| f.1 == *n)).collect(),
		Tier::Thorough => valid.clone(),
	};
	let spell = |n: i32, nix: Nix| -> Vec<String> {
		let name = nix.as_str();
		let mut v = vec![name.to_string(), name.to_ascii_lowercase(), name[3..].to_string(), name[3..].to_ascii_lowercase(), n.to_string()];
		// the short name STOP is a Windows name (documented precedence): exclude it here
		v.retain(|s| !s.eq_ignore_ascii_case("STOP"));
		v
	};
	for (fnum, fnix) in &from_set {
		for ftext in spell(*fnum, *fnix) {
			cases_list.push(("map-signal".into(), json!({"from": ftext, "to": "", "ef": fnum, "et": null})));
			for (tnum, tnix) in valid.iter().filter(|(n, _)| FIRST_CLASS.iter().any(|f| f.1 == *n)) {
				for ttext in spell(*tnum, *tnix) {
					cases_list.push(("map-signal".into(), json!({"from": ftext, "to": ttext, "ef": fnum, "et": tnum})));
				}
			}
		}
	}
	out.states = cases_list.len() as u64;
	for (i, (kind, arg)) in cases_list.iter().enumerate() {
		out.evaluations += 1;
		let res = eval(kind, arg);
		if i % (cases_list.len() / 5).max(1) == 0 {
			out.sample(json!({"kind": kind, "arg": arg, "violations": res.len()}));
		}
		out.nontrivial_mark((kind, arg.to_string().len() % 7, res.is_empty()));
		for (k, d) in res {
			out.violate(k, d, json!({"kind": kind, "arg": arg}));
		}
	}
	// distinct non-trivial: distinct (kind, OS signal / code) targets actually exercised
	let mut targets = std::collections::HashSet::new();
	for (kind, arg) in &cases_list {
		let t = match kind.as_str() {
			"spelling" => arg["n"].to_string(),
			"map-signal" => format!("{}>{}", arg["ef"], arg["et"]),
			_ => arg.to_string(),
		};
		targets.insert((kind.clone(), t));
	}
	out.nontrivial.clear();
	for t in targets {
		out.nontrivial_mark(t);
	}
	out
}
