//! C03 — ignore files apply only inside their directory; the nearest match wins.
//!
//! Bounded-exhaustive enumeration (engine ENUM, DESIGN.md section 7 "C03").
//!
//! *Tree* (one maximal tree, the filter never looks at the tree itself — only at where the
//! ignore files apply and at the probe paths): origin `o/` with `test`, `tests`, `a`,
//! `test/a`, `tests/a`, `a/a`; next to the origin an unrelated directory `w/` and a
//! directory `ox/` whose name has the origin's name as a string prefix.
//! *Sites* an ignore file can apply in: global, `o`, `test`, `tests`, `a`, `test/a`, `tests/a`.
//! *Lines*: `x.log *.log a/ /a a/x.log **/x.log a/**` + `test/ /test test/**` (the grammar
//! instantiated on the tree's names), each also negated (20 lines; thorough's large
//! families use the 14 lines of the base grammar).
//! *Configurations* (files in listed order):
//!   quick    = 1 file x (1 | 2 lines), 2 files x 1 line on every pair of sites (same site:
//!              both listed orders), 3 files x 1 line on the four prefix-sibling chains
//!              (outer, test|tests, below the other sibling)               (24 836 configs)
//!   thorough = quick + 2 files (2 lines, 1 line) + 3 files x 1 line          (~3.7e5 configs)
//! *Operation sequences per configuration*: `new(all)` twice, `new(perm)` for every
//! permutation that keeps same-site files in listed order, `new(∅)+add_file` in every such
//! order, `new(first k)+add_file(rest)`, `new(∅)+add_globs`.
//! *Probes*: every directory of the tree and `x.log`, `keep.log`, `a` under each, the
//! origin itself, `w/x.log`, `ox/{x.log,keep.log,a}`; each as file and as directory;
//! observables `IgnoreFilterer::check_event` (single-path event) and, for directories,
//! `IgnoreFilter::check_dir`.
//! *Oracle*: IgnoreCompose (`model`): component-wise ancestors of the path, nearest first;
//! all files applying in one directory form one git-style list in listed order (last
//! matching line wins, a directory match covers what is below it — decided by the `ignore`
//! crate's single-file `Gitignore`, the trusted base); first directory with a match
//! decides; then the global files (patterns relative to the origin, as git does for
//! core.excludesFile). Unspecified by the statement and therefore skipped: a path probed
//! against an ignore file applying in that very path (the model is evaluated with and
//! without that file; the probe is skipped when the two differ).
//! *Read-completion leg*: same-site files as FIFOs released in every order; the verdict
//! must follow listed order whatever order the reads complete in.
//!
//! Deviations from DESIGN.md: one maximal tree instead of a family of sub-trees (the code
//! under test never reads the tree); the `git check-ignore` second oracle is not built (the
//! per-file matcher is the trusted `ignore` crate in both the model and the code under
//! test, what is checked is this repository's composition).

use std::{
	collections::{BTreeMap, BTreeSet},
	io::Write as _,
	panic::{catch_unwind, AssertUnwindSafe},
	path::{Path, PathBuf},
	time::Duration,
};

use dex::orch::Tier;
use ignore_files::{IgnoreFile, IgnoreFilter};
use serde_json::{json, Value};
use watchexec::filter::Filterer;
use watchexec_events::{Event, FileType, Priority, Tag};
use watchexec_filterer_ignore::IgnoreFilterer;

use crate::common::{par_map, EnumOut, Scratch};

/// IgnoreCompose: the reference model, written from the property statement.
pub(crate) mod model {
	use std::path::{Path, PathBuf};

	use ignore::{
		gitignore::{Gitignore, GitignoreBuilder},
		Match,
	};

	#[derive(Clone, Debug)]
	pub struct MFile {
		/// `None` = global
		pub applies_in: Option<PathBuf>,
		pub lines: Vec<String>,
	}

	#[derive(Clone, Debug, PartialEq, Eq)]
	pub struct Decision {
		pub ignored: bool,
		/// (directory whose list decided; `None` = the global list, negated?, pattern)
		pub by: Option<(Option<PathBuf>, bool, String)>,
	}

	pub struct Compose {
		origin: PathBuf,
		dirs: Vec<(PathBuf, Gitignore)>,
		global: Option<Gitignore>,
	}

	fn build(root: &Path, lines: &[&String]) -> Result<Gitignore, String> {
		let mut b = GitignoreBuilder::new(root);
		for l in lines {
			b.add_line(None, l).map_err(|e| e.to_string())?;
		}
		b.build().map_err(|e| e.to_string())
	}

	impl Compose {
		/// `files` in listed order (= precedence among files applying in the same directory).
		pub fn new(origin: &Path, files: &[MFile]) -> Result<Self, String> {
			let mut keys: Vec<Option<PathBuf>> = vec![];
			for f in files {
				if !keys.contains(&f.applies_in) {
					keys.push(f.applies_in.clone());
				}
			}
			let mut dirs = vec![];
			let mut global = None;
			for k in keys {
				let lines: Vec<&String> = files.iter().filter(|f| f.applies_in == k).flat_map(|f| f.lines.iter()).collect();
				match k {
					Some(d) => {
						let g = build(&d, &lines)?;
						dirs.push((d, g));
					}
					None => global = Some(build(origin, &lines)?),
				}
			}
			Ok(Self { origin: origin.to_path_buf(), dirs, global })
		}

		pub fn has_files_in(&self, dir: &Path) -> bool {
			self.dirs.iter().any(|(d, _)| d == dir)
		}

		/// `include_self`: also consult the files applying in `path` itself (the case the
		/// property leaves unspecified; callers compare both answers).
		pub fn decide(&self, path: &Path, is_dir: bool, include_self: bool) -> Decision {
			let mut cur = if include_self { Some(path) } else { path.parent() };
			while let Some(d) = cur {
				if let Some((_, g)) = self.dirs.iter().find(|(k, _)| k == d) {
					// `path` is `d` or below it, component-wise
					match g.matched_path_or_any_parents(path, is_dir) {
						Match::None => {}
						Match::Ignore(gl) => {
							return Decision { ignored: true, by: Some((Some(d.to_path_buf()), false, gl.original().to_string())) }
						}
						Match::Whitelist(gl) => {
							return Decision { ignored: false, by: Some((Some(d.to_path_buf()), true, gl.original().to_string())) }
						}
					}
				}
				cur = d.parent();
			}
			if let Some(g) = &self.global {
				let m = if path.starts_with(&self.origin) { g.matched_path_or_any_parents(path, is_dir) } else { g.matched(path, is_dir) };
				match m {
					Match::None => {}
					Match::Ignore(gl) => return Decision { ignored: true, by: Some((None, false, gl.original().to_string())) },
					Match::Whitelist(gl) => return Decision { ignored: false, by: Some((None, true, gl.original().to_string())) },
				}
			}
			Decision { ignored: false, by: None }
		}
	}
}

use model::{Compose, MFile};

const GLOBAL: &str = "<global>";
/// sites an ignore file can apply in (relative to the origin; "" = the origin)
const SITES: [&str; 7] = [GLOBAL, "", "test", "tests", "a", "test/a", "tests/a"];
const TREE: [&str; 6] = ["test", "tests", "a", "test/a", "tests/a", "a/a"];
const BASE: [&str; 7] = ["x.log", "*.log", "a/", "/a", "a/x.log", "**/x.log", "a/**"];
const EXTRA: [&str; 3] = ["test/", "/test", "test/**"];
const NAMES: [&str; 3] = [".gitignore", ".ignore", ".hgignore"];

const HANDOFF_REPEATS: usize = 4;

#[derive(Clone, Debug, PartialEq, Eq, Hash)]
struct FileSpec {
	site: String,
	lines: Vec<String>,
}

#[derive(Clone, Debug, PartialEq, Eq, Hash)]
struct Config {
	files: Vec<FileSpec>,
}

impl Config {
	fn json(&self) -> Value {
		json!(self.files.iter().map(|f| json!({"site": f.site, "lines": f.lines})).collect::<Vec<_>>())
	}
	fn from_json(v: &Value) -> Option<Self> {
		let mut files = vec![];
		for f in v.as_array()? {
			files.push(FileSpec {
				site: f["site"].as_str()?.to_string(),
				lines: f["lines"].as_array()?.iter().filter_map(|l| l.as_str().map(str::to_string)).collect(),
			});
		}
		Some(Config { files })
	}
	fn has_same_site_files(&self) -> bool {
		let mut s = BTreeSet::new();
		self.files.iter().any(|f| !s.insert(&f.site))
	}
}

fn lines(all: bool) -> Vec<String> {
	let mut v: Vec<String> = BASE.iter().map(|s| s.to_string()).collect();
	if all {
		v.extend(EXTRA.iter().map(|s| s.to_string()));
	}
	let neg: Vec<String> = v.iter().map(|s| format!("!{s}")).collect();
	v.extend(neg);
	v
}

fn configs(tier: Tier) -> Vec<Config> {
	let l20 = lines(true);
	let l14 = lines(false);
	let fs = |site: &str, ls: &[&String]| FileSpec { site: site.to_string(), lines: ls.iter().map(|s| (*s).clone()).collect() };
	let mut out = vec![];
	// one file, one or two lines
	for s in SITES {
		for a in &l20 {
			out.push(Config { files: vec![fs(s, &[a])] });
			for b in &l20 {
				if a != b {
					out.push(Config { files: vec![fs(s, &[a, b])] });
				}
			}
		}
	}
	// two files, one line each; same site: both listed orders (ordered pairs of distinct lines)
	for (i, s1) in SITES.iter().enumerate() {
		for s2 in &SITES[i..] {
			for a in &l20 {
				for b in &l20 {
					if s1 == s2 && a == b {
						continue;
					}
					out.push(Config { files: vec![fs(s1, &[a]), fs(s2, &[b])] });
				}
			}
		}
	}
	// a line given again after a line of the opposite polarity (within one file, or spread over
	// two or three files of one directory): the list is ordered and the last match decides, so
	// the repeat is not redundant
	{
		let pos: Vec<&String> = l14.iter().filter(|l| !l.starts_with('!')).collect();
		let neg: Vec<&String> = l14.iter().filter(|l| l.starts_with('!')).collect();
		for s in SITES {
			for p in &pos {
				for n in &neg {
					out.push(Config { files: vec![fs(s, &[p, n, p])] });
					out.push(Config { files: vec![fs(s, &[n, p, n])] });
					out.push(Config { files: vec![fs(s, &[p, n]), fs(s, &[p])] });
					out.push(Config { files: vec![fs(s, &[p]), fs(s, &[n, p])] });
					out.push(Config { files: vec![fs(s, &[p]), fs(s, &[n]), fs(s, &[p])] });
				}
			}
		}
	}
	if tier == Tier::Quick {
		// three files along a "prefix-sibling chain": an outer file, a file in `test` (resp.
		// `tests`) and a file *below* the sibling `tests` (resp. `test`) with none in the
		// sibling itself — the second hop of the ancestor walk starts from a nested directory
		for outer in ["", GLOBAL] {
			for (sib, nested) in [("test", "tests/a"), ("tests", "test/a")] {
				for a in &l14 {
					for b in &l14 {
						for c in &l14 {
							out.push(Config { files: vec![fs(outer, &[a]), fs(sib, &[b]), fs(nested, &[c])] });
						}
					}
				}
			}
		}
	}
	if tier == Tier::Thorough {
		// two files: (two lines, one line), either listed first
		for s1 in SITES {
			for s2 in SITES {
				for a in &l14 {
					for b in &l14 {
						if a == b {
							continue;
						}
						for c in &l14 {
							out.push(Config { files: vec![fs(s1, &[a, b]), fs(s2, &[c])] });
							if s1 == s2 {
								out.push(Config { files: vec![fs(s2, &[c]), fs(s1, &[a, b])] });
							}
						}
					}
				}
			}
		}
		// three files, one line each; listed sorted by site, same-site files in every order
		for (i, s1) in SITES.iter().enumerate() {
			for (j, s2) in SITES.iter().enumerate().skip(i) {
				for s3 in &SITES[j..] {
					for a in &l14 {
						for b in &l14 {
							if s1 == s2 && a == b {
								continue;
							}
							for c in &l14 {
								if (s2 == s3 && b == c) || (s1 == s3 && a == c) {
									continue;
								}
								out.push(Config { files: vec![fs(s1, &[a]), fs(s2, &[b]), fs(s3, &[c])] });
							}
						}
					}
				}
			}
		}
	}
	out
}

#[derive(Clone, Debug)]
struct Probe {
	rel: String,
	path: PathBuf,
	is_dir: bool,
	class: &'static str,
}

/// probe paths relative to the scratch base, with their class
fn probe_rels() -> Vec<(String, &'static str)> {
	let mut rels: Vec<(String, &'static str)> = vec![];
	let mut push = |r: String, c: &'static str| {
		if !rels.iter().any(|(x, _)| *x == r) {
			rels.push((r, c));
		}
	};
	push("o".into(), "origin");
	for d in std::iter::once("").chain(TREE) {
		let p = if d.is_empty() { "o".to_string() } else { format!("o/{d}") };
		push(p.clone(), "inside");
		for leaf in ["x.log", "keep.log", "a"] {
			push(format!("{p}/{leaf}"), "inside");
		}
	}
	push("w/x.log".into(), "outside");
	for leaf in ["x.log", "keep.log", "a"] {
		push(format!("ox/{leaf}"), "outside-origin-name-prefix");
	}
	rels
}

struct Ctx {
	/// alternate fixture: every path runs through a directory with multi-byte characters in
	/// its name, and the ignore files are written without a final line terminator
	alt: bool,
	base: PathBuf,
	origin: PathBuf,
	rt: tokio::runtime::Runtime,
	probes: Vec<Probe>,
}

impl Ctx {
	fn new(base: &Path) -> Self {
		std::fs::create_dir_all(base).expect("base");
		let base = std::fs::canonicalize(base).expect("canonical base");
		let origin = base.join("o");
		for d in TREE {
			std::fs::create_dir_all(origin.join(d)).expect("tree");
		}
		for d in ["home", "w", "ox"] {
			std::fs::create_dir_all(base.join(d)).expect("tree");
		}
		let rels = probe_rels();
		let mut probes = vec![];
		for (r, c) in rels {
			for is_dir in [false, true] {
				probes.push(Probe { path: base.join(&r), rel: r.clone(), is_dir, class: c });
			}
		}
		let rt = tokio::runtime::Builder::new_current_thread().enable_all().build().expect("runtime");
		let alt = base.to_string_lossy().contains('ü');
		Ctx { alt, base, origin, rt, probes }
	}

	fn site_dir(&self, site: &str) -> Option<PathBuf> {
		match site {
			GLOBAL => None,
			"" => Some(self.origin.clone()),
			s => Some(self.origin.join(s)),
		}
	}

	/// (real ignore files, model files) for a configuration; file k applying in a site is
	/// stored as that directory's k-th ignore file name (global: under `home/`).
	fn layout(&self, cfg: &Config) -> (Vec<IgnoreFile>, Vec<MFile>) {
		let mut per_site: BTreeMap<&str, usize> = BTreeMap::new();
		let mut real = vec![];
		let mut mf = vec![];
		for f in &cfg.files {
			let k = per_site.entry(f.site.as_str()).or_insert(0);
			let dir = self.site_dir(&f.site);
			let path = match &dir {
				None => self.base.join("home").join(format!("global-{k}.ignore")),
				Some(d) => d.join(NAMES.get(*k).copied().unwrap_or(".extraignore")),
			};
			*k += 1;
			real.push(IgnoreFile { path, applies_in: dir.clone(), applies_to: None });
			mf.push(MFile { applies_in: dir, lines: f.lines.clone() });
		}
		(real, mf)
	}
}

#[derive(Clone, Debug, PartialEq, Eq)]
enum Cons {
	/// like AddFile in listed order, but before each file a load of a missing file and of an
	/// invalid glob for the same directory is attempted (and fails): a failed addition must
	/// leave the filter as it was, later additions still count
	AddFileAfterFailures,
	New(Vec<usize>),
	NewRepeat,
	AddFile(Vec<usize>),
	Prefix(usize),
	AddGlobs,
}

impl Cons {
	fn kind(&self, n: usize) -> &'static str {
		let listed: Vec<usize> = (0..n).collect();
		match self {
			Cons::AddFileAfterFailures => "add_file-after-failed-additions",
			Cons::New(o) if *o == listed => "new",
			Cons::New(_) => "new-permuted",
			Cons::NewRepeat => "new-repeat",
			Cons::AddFile(o) if *o == listed => "add_file",
			Cons::AddFile(_) => "add_file-permuted",
			Cons::Prefix(_) => "new-prefix+add_file",
			Cons::AddGlobs => "add_globs",
		}
	}
	fn label(&self) -> String {
		match self {
			Cons::AddFileAfterFailures => "new[]+(failed add_file, failed add_globs, add_file)*".into(),
			Cons::New(o) => format!("new{o:?}"),
			Cons::NewRepeat => "new-repeat".into(),
			Cons::AddFile(o) => format!("new[]+add_file{o:?}"),
			Cons::Prefix(k) => format!("new[..{k}]+add_file[{k}..]"),
			Cons::AddGlobs => "new[]+add_globs".into(),
		}
	}
}

/// permutations of 0..n that keep files of the same site in listed order
fn valid_orders(cfg: &Config) -> Vec<Vec<usize>> {
	fn rec(cfg: &Config, cur: &mut Vec<usize>, used: &mut Vec<bool>, out: &mut Vec<Vec<usize>>) {
		let n = cfg.files.len();
		if cur.len() == n {
			out.push(cur.clone());
			return;
		}
		for i in 0..n {
			if used[i] {
				continue;
			}
			// every earlier-listed file of the same site must already be placed
			if (0..i).any(|j| !used[j] && cfg.files[j].site == cfg.files[i].site) {
				continue;
			}
			used[i] = true;
			cur.push(i);
			rec(cfg, cur, used, out);
			cur.pop();
			used[i] = false;
		}
	}
	let mut out = vec![];
	rec(cfg, &mut vec![], &mut vec![false; cfg.files.len()], &mut out);
	out
}

fn constructions(cfg: &Config) -> Vec<Cons> {
	let n = cfg.files.len();
	let orders = valid_orders(cfg);
	let mut v = vec![];
	for o in &orders {
		v.push(Cons::New(o.clone()));
	}
	v.push(Cons::NewRepeat);
	for o in &orders {
		v.push(Cons::AddFile(o.clone()));
	}
	for k in 1..n {
		v.push(Cons::Prefix(k));
	}
	if n >= 1 {
		v.push(Cons::AddFileAfterFailures);
	}
	v.push(Cons::AddGlobs);
	v
}

fn build(ctx: &Ctx, cons: &Cons, real: &[IgnoreFile], cfg: &Config) -> Result<IgnoreFilter, String> {
	let origin = ctx.origin.clone();
	ctx.rt.block_on(async {
		let pick = |o: &[usize]| o.iter().map(|i| real[*i].clone()).collect::<Vec<_>>();
		match cons {
			Cons::New(o) => IgnoreFilter::new(&origin, &pick(o)).await.map_err(|e| e.to_string()),
			Cons::NewRepeat => IgnoreFilter::new(&origin, real).await.map_err(|e| e.to_string()),
			Cons::AddFile(o) => {
				let mut f = IgnoreFilter::new(&origin, &[]).await.map_err(|e| e.to_string())?;
				for i in o {
					f.add_file(&real[*i]).await.map_err(|e| e.to_string())?;
				}
				Ok(f)
			}
			Cons::AddFileAfterFailures => {
				let mut f = IgnoreFilter::new(&origin, &[]).await.map_err(|e| e.to_string())?;
				for file in real {
					let missing = IgnoreFile { path: file.path.with_file_name("no-such-ignore-file"), applies_in: file.applies_in.clone(), applies_to: None };
					if f.add_file(&missing).await.is_ok() {
						return Err("add_file of a missing file succeeded".into());
					}
					if f.add_globs(&["a[", "x.never"], file.applies_in.as_ref()).is_ok() {
						return Err("add_globs with an invalid glob succeeded".into());
					}
					f.add_file(file).await.map_err(|e| e.to_string())?;
				}
				Ok(f)
			}
			Cons::Prefix(k) => {
				let mut f = IgnoreFilter::new(&origin, &real[..*k]).await.map_err(|e| e.to_string())?;
				for file in &real[*k..] {
					f.add_file(file).await.map_err(|e| e.to_string())?;
				}
				Ok(f)
			}
			Cons::AddGlobs => {
				let mut f = IgnoreFilter::new(&origin, &[]).await.map_err(|e| e.to_string())?;
				for (spec, file) in cfg.files.iter().zip(real) {
					let globs: Vec<&str> = spec.lines.iter().map(String::as_str).collect();
					f.add_globs(&globs, file.applies_in.as_ref()).map_err(|e| e.to_string())?;
				}
				Ok(f)
			}
		}
	})
}

fn event_for(p: &Probe) -> Event {
	Event {
		tags: vec![Tag::Path { path: p.path.clone(), file_type: Some(if p.is_dir { FileType::Dir } else { FileType::File }) }],
		metadata: Default::default(),
	}
}

/// One entry per (probe, observable): `Some(ignored)`.
fn observe(f: &IgnoreFilterer, probes: &[Probe], evals: &mut u64) -> Vec<bool> {
	let mut v = Vec::with_capacity(probes.len() * 2);
	for p in probes {
		*evals += 1;
		v.push(!f.check_event(&event_for(p), Priority::Normal).unwrap_or(true));
		if p.is_dir {
			*evals += 1;
			v.push(!f.0.check_dir(&p.path));
		}
	}
	v
}

/// entry index -> (probe index, observable)
fn entries(probes: &[Probe]) -> Vec<(usize, &'static str)> {
	let mut v = vec![];
	for (i, p) in probes.iter().enumerate() {
		v.push((i, "check_event"));
		if p.is_dir {
			v.push((i, "check_dir"));
		}
	}
	v
}

fn relation(from: Option<&Path>, path: &Path) -> &'static str {
	match from {
		None => "unknown",
		Some(f) if f == Path::new("/") => "global",
		Some(f) if path.starts_with(f) => "ancestor-dir",
		Some(f) if path.to_string_lossy().starts_with(&*f.to_string_lossy()) => "name-prefix-dir",
		Some(_) => "unrelated-dir",
	}
}

struct Viol {
	key: String,
	detail: String,
	probe: usize,
	cons: String,
	observable: &'static str,
}

struct Eval {
	evals: u64,
	model_vec: Vec<Option<bool>>,
	unspecified: u64,
	viols: Vec<Viol>,
}

fn write_files(real: &[IgnoreFile], cfg: &Config, no_final_newline: bool) {
	for (f, spec) in real.iter().zip(&cfg.files) {
		let mut body = spec.lines.join("\n");
		if !no_final_newline {
			body.push('\n');
		}
		std::fs::write(&f.path, body).expect("write ignore file");
	}
}

fn remove_files(real: &[IgnoreFile]) {
	for f in real {
		let _ = std::fs::remove_file(&f.path);
	}
}

fn eval_config(ctx: &Ctx, cfg: &Config) -> Eval {
	let (real, mf) = ctx.layout(cfg);
	write_files(&real, cfg, ctx.alt);
	let mut ev = Eval { evals: 0, model_vec: vec![], unspecified: 0, viols: vec![] };
	let compose = match Compose::new(&ctx.origin, &mf) {
		Ok(c) => c,
		Err(e) => {
			ev.viols.push(Viol { key: "C03/model-error".into(), detail: e, probe: 0, cons: String::new(), observable: "" });
			remove_files(&real);
			return ev;
		}
	};
	let ents = entries(&ctx.probes);
	// model verdict per entry; None = unspecified by the property
	let decisions: Vec<(model::Decision, model::Decision)> =
		ctx.probes.iter().map(|p| (compose.decide(&p.path, p.is_dir, false), compose.decide(&p.path, p.is_dir, true))).collect();
	for (pi, _) in &ents {
		let (a, b) = &decisions[*pi];
		if a.ignored == b.ignored {
			ev.model_vec.push(Some(a.ignored));
		} else {
			ev.model_vec.push(None);
			ev.unspecified += 1;
		}
	}
	let conss = constructions(cfg);
	let n = cfg.files.len();
	let mut results: Vec<(Cons, Result<(IgnoreFilterer, Vec<bool>), String>)> = vec![];
	for c in conss {
		let r = catch_unwind(AssertUnwindSafe(|| {
			let f = build(ctx, &c, &real, cfg)?;
			let f = IgnoreFilterer(f);
			let v = observe(&f, &ctx.probes, &mut ev.evals);
			Ok((f, v))
		}))
		.unwrap_or_else(|_| Err("panicked".to_string()));
		results.push((c, r));
	}
	// hand-off leg: the same files given to `GlobsetFilterer::new` (the CLI's path to the
	// ignore filter) with no other filter configured must give the model's verdicts too —
	// built several times, since anything that reorders files there (e.g. a randomly seeded
	// set) shows only in some constructions
	let mut handoff: Vec<Result<Vec<bool>, String>> = vec![];
	if cfg.files.len() >= 2 {
		for _ in 0..HANDOFF_REPEATS {
			let r = catch_unwind(AssertUnwindSafe(|| {
				let f = ctx
					.rt
					.block_on(watchexec_filterer_globset::GlobsetFilterer::new(&ctx.origin, vec![], vec![], vec![], real.to_vec(), vec![]))
					.map_err(|e| e.to_string())?;
				let mut v = vec![];
				for p in &ctx.probes {
					ev.evals += 1;
					v.push(!f.check_event(&event_for(p), Priority::Normal).unwrap_or(true));
				}
				Ok(v)
			}))
			.unwrap_or_else(|_| Err("panicked".to_string()));
			handoff.push(r);
		}
	}
	// a finished filter: `finish()` drops the builders, after which `add_file` is documented
	// to do nothing — the verdicts must stay those of the files loaded before
	let mut after_finish: Option<(Vec<bool>, Vec<bool>)> = None;
	// (only where the last file's directory already has files: a directory the filter has not
	// seen yet still gets a fresh builder)
	if cfg.files.len() >= 2 && cfg.files[..cfg.files.len() - 1].iter().any(|f| f.site == cfg.files[cfg.files.len() - 1].site) {
		let n1 = cfg.files.len() - 1;
		let r = catch_unwind(AssertUnwindSafe(|| {
			ctx.rt.block_on(async {
				let a = IgnoreFilter::new(&ctx.origin, &real[..n1]).await.map_err(|e| e.to_string())?;
				let mut b = IgnoreFilter::new(&ctx.origin, &real[..n1]).await.map_err(|e| e.to_string())?;
				b.finish();
				let _ = b.add_file(&real[n1]).await;
				Ok::<_, String>((IgnoreFilterer(a), IgnoreFilterer(b)))
			})
		}));
		if let Ok(Ok((a, b))) = r {
			let va = observe(&a, &ctx.probes, &mut ev.evals);
			let vb = observe(&b, &ctx.probes, &mut ev.evals);
			after_finish = Some((va, vb));
		}
	}
	remove_files(&real);
	if let Some((va, vb)) = &after_finish {
		if let Some(ei) = (0..va.len()).find(|i| va[*i] != vb[*i]) {
			let (pi, obs) = ents[ei];
			let p = &ctx.probes[pi];
			ev.viols.push(Viol {
				key: "C03/add_file-after-finish-changes-verdicts".into(),
				detail: format!(
					"files {} ; the filter built from all but the last file says ignored={} for {} ({obs}); after finish() + add_file(last file) it says ignored={}",
					cfg.json(),
					va[ei],
					p.rel,
					vb[ei]
				),
				probe: pi,
				cons: "new[..n-1]+finish+add_file".into(),
				observable: obs,
			});
		}
	}
	{
		// entry index of each probe's check_event observable
		let ev_entry: Vec<usize> = ents.iter().enumerate().filter(|(_, (_, o))| *o == "check_event").map(|(ei, _)| ei).collect();
		let mut reported = false;
		for (ri, r) in handoff.iter().enumerate() {
			match r {
				Err(e) => {
					if !reported {
						ev.viols.push(Viol { key: "C03/globset-handoff/construction-error".into(), detail: format!("GlobsetFilterer::new on {} failed: {e}", cfg.json()), probe: 0, cons: "globset".into(), observable: "" });
						reported = true;
					}
				}
				Ok(v) => {
					for (pi, got) in v.iter().enumerate() {
						let Some(want) = ev.model_vec[ev_entry[pi]] else { continue };
						if *got != want && !reported {
							let p = &ctx.probes[pi];
							let stable = handoff.iter().all(|x| x.as_ref().map_or(false, |x| x[pi] == *got));
							ev.viols.push(Viol {
								key: format!(
									"C03/globset-handoff/{}",
									if stable { "verdict-differs-from-model" } else if cfg.has_same_site_files() { "same-dir-order-not-kept" } else { "unstable-across-constructions" }
								),
								detail: format!(
									"files {} ; probe {} as {} ; GlobsetFilterer::new(ignore files only) construction #{ri} says ignored={got}, model says ignored={want}",
									cfg.json(),
									p.rel,
									if p.is_dir { "dir" } else { "file" }
								),
								probe: pi,
								cons: "globset".into(),
								observable: "check_event",
							});
							reported = true;
						}
					}
				}
			}
		}
	}
	for (c, r) in &results {
		if let Err(e) = r {
			let key = if e == "panicked" { "C03/panic" } else { "C03/construction-error" };
			ev.viols.push(Viol {
				key: format!("{key}/{}", c.kind(n)),
				detail: format!("{} on {} failed: {e}", c.label(), cfg.json()),
				probe: 0,
				cons: c.label(),
				observable: "",
			});
		}
	}
	let ok: Vec<(&Cons, &IgnoreFilterer, &Vec<bool>)> = results.iter().filter_map(|(c, r)| r.as_ref().ok().map(|(f, v)| (c, f, v))).collect();
	for (ei, (pi, obs)) in ents.iter().enumerate() {
		let Some(want) = ev.model_vec[ei] else { continue };
		let bad: Vec<&(&Cons, &IgnoreFilterer, &Vec<bool>)> = ok.iter().filter(|(_, _, v)| v[ei] != want).collect();
		if bad.is_empty() {
			continue;
		}
		let p = &ctx.probes[*pi];
		let (c0, f0, _) = bad[0];
		let kinds: BTreeSet<&str> = bad.iter().map(|(c, _, _)| c.kind(n)).collect();
		let all_bad = bad.len() == ok.len();
		let m = f0.0.match_path(&p.path, p.is_dir);
		let (ikind, ifrom, ipat) = match &m {
			ignore::Match::None => ("none", None, String::new()),
			ignore::Match::Ignore(g) => ("ignore", g.from().map(Path::to_path_buf), g.original().to_string()),
			ignore::Match::Whitelist(g) => ("negation", g.from().map(Path::to_path_buf), g.original().to_string()),
		};
		let irel = if ikind == "none" { "-" } else { relation(ifrom.as_deref(), &p.path) };
		let md = &decisions[*pi].0;
		let (mkind, mrel) = match &md.by {
			None => ("none", "-"),
			Some((d, neg, _)) => (
				if *neg { "negation" } else { "ignore" },
				match d {
					None => "global",
					Some(d) => {
						// nearest = first ancestor directory that has files at all
						let mut cur = p.path.parent();
						let mut nearest = None;
						while let Some(x) = cur {
							if compose.has_files_in(x) {
								nearest = Some(x.to_path_buf());
								break;
							}
							cur = x.parent();
						}
						if nearest.as_deref() == Some(d.as_path()) {
							"nearest-dir"
						} else {
							"farther-dir"
						}
					}
				},
			),
		};
		let dir = if want { "passes-but-model-ignores" } else { "ignores-but-model-passes" };
		let key = if !all_bad {
			// new() reads its files concurrently: only it (and a prefix handed to it) can
			// reorder files applying in one directory
			let new_only = kinds.iter().all(|k| matches!(*k, "new" | "new-permuted" | "new-repeat" | "new-prefix+add_file"))
				&& kinds.iter().any(|k| matches!(*k, "new" | "new-permuted" | "new-repeat"));
			if cfg.has_same_site_files() && new_only {
				"C03/same-dir-precedence/new-does-not-keep-listed-order".to_string()
			} else {
				format!("C03/construction-dependent/{}", kinds.iter().copied().collect::<Vec<_>>().join("+"))
			}
		} else if irel == "name-prefix-dir" && ikind == "negation" {
			"C03/scope/negation-leaks-to-name-prefix-sibling".to_string()
		} else if irel == "name-prefix-dir" && ikind == "ignore" && want {
			"C03/scope/out-of-scope-match-in-name-prefix-sibling-shadows-outer-ignore".to_string()
		} else {
			format!("C03/compose/{dir}/impl-decider={ikind}:{irel}/model-decider={mkind}:{mrel}/probe-{}", p.class)
		};
		let detail = format!(
			"files {} ; probe {} as {} ; {obs} via {} says {} ; model says {} (decided by {}) ; match_path = {ikind} {:?} from {:?} ; constructions disagreeing with the model: {}/{} [{}]",
			cfg.json(),
			p.rel,
			if p.is_dir { "dir" } else { "file" },
			c0.label(),
			if want { "pass" } else { "IGNORED" },
			if want { "IGNORED" } else { "pass" },
			md.by.as_ref().map_or("nothing".to_string(), |(d, _, pat)| format!(
				"{pat:?} in {}",
				d.as_ref().map_or(GLOBAL.to_string(), |d| d.strip_prefix(&ctx.base).unwrap_or(d).display().to_string())
			)),
			ipat,
			ifrom.as_ref().map(|d| d.strip_prefix(&ctx.base).unwrap_or(d).display().to_string()),
			bad.len(),
			ok.len(),
			kinds.iter().copied().collect::<Vec<_>>().join(","),
		);
		ev.viols.push(Viol { key, detail, probe: *pi, cons: c0.label(), observable: obs });
	}
	// repeated construction from identical inputs
	let first = ok.iter().find(|(c, _, _)| matches!(c, Cons::New(o) if o.iter().copied().eq(0..n)));
	let rep = ok.iter().find(|(c, _, _)| matches!(c, Cons::NewRepeat));
	if let (Some((_, _, a)), Some((_, _, b))) = (first, rep) {
		if let Some(ei) = (0..a.len()).find(|i| a[*i] != b[*i]) {
			let (pi, obs) = ents[ei];
			let p = &ctx.probes[pi];
			ev.viols.push(Viol {
				key: if cfg.has_same_site_files() {
					"C03/same-dir-precedence/new-unstable-across-repeats".into()
				} else {
					"C03/repeat/new-unstable-across-repeats".into()
				},
				detail: format!(
					"files {} ; probe {} as {} ; {obs}: first new() says ignored={}, second identical new() says ignored={}",
					cfg.json(),
					p.rel,
					if p.is_dir { "dir" } else { "file" },
					a[ei],
					b[ei]
				),
				probe: pi,
				cons: "new-repeat".into(),
				observable: obs,
			});
		}
	}
	ev
}

// ---------------------------------------------------------------------------------------
// read-completion leg: same-site files are FIFOs, released in a chosen order

#[derive(Clone, Debug)]
struct FifoCase {
	site: String,
	lines: Vec<String>,
	/// release[k] = index of the file released k-th
	release: Vec<usize>,
}

impl FifoCase {
	fn json(&self) -> Value {
		json!({"kind": "fifo", "site": self.site, "lines": self.lines, "release": self.release})
	}
	fn from_json(v: &Value) -> Option<Self> {
		Some(FifoCase {
			site: v["site"].as_str()?.to_string(),
			lines: v["lines"].as_array()?.iter().filter_map(|l| l.as_str().map(str::to_string)).collect(),
			release: v["release"].as_array()?.iter().filter_map(|l| l.as_u64().map(|x| x as usize)).collect(),
		})
	}
}

fn perms(n: usize) -> Vec<Vec<usize>> {
	if n == 0 {
		return vec![vec![]];
	}
	let mut out = vec![];
	for p in perms(n - 1) {
		for i in 0..=p.len() {
			let mut q = p.clone();
			q.insert(i, n - 1);
			out.push(q);
		}
	}
	out.sort();
	out
}

fn fifo_cases(tier: Tier) -> Vec<FifoCase> {
	let ls = ["x.log", "!x.log", "*.log", "!*.log"];
	let mut v = vec![];
	let sites: &[&str] = if tier == Tier::Quick { &["", "test", GLOBAL] } else { &SITES };
	for s in sites {
		for a in ls {
			for b in ls {
				if a == b {
					continue;
				}
				for r in perms(2) {
					v.push(FifoCase { site: s.to_string(), lines: vec![a.into(), b.into()], release: r });
				}
			}
		}
	}
	let tri = ["*.log", "!x.log", "x.log"];
	let sites3: &[&str] = if tier == Tier::Quick { &[""] } else { &["", "test", GLOBAL] };
	for s in sites3 {
		for o in perms(3) {
			for r in perms(3) {
				v.push(FifoCase { site: s.to_string(), lines: o.iter().map(|i| tri[*i].to_string()).collect(), release: r });
			}
		}
	}
	v
}

const FIFO_GAP_MS: u64 = 40;

fn eval_fifo(ctx: &Ctx, case: &FifoCase, evals: &mut u64) -> Result<Vec<Viol>, String> {
	let cfg = Config { files: case.lines.iter().map(|l| FileSpec { site: case.site.clone(), lines: vec![l.clone()] }).collect() };
	let (real, mf) = ctx.layout(&cfg);
	let compose = Compose::new(&ctx.origin, &mf)?;
	for f in &real {
		let _ = std::fs::remove_file(&f.path);
		nix::unistd::mkfifo(&f.path, nix::sys::stat::Mode::from_bits_truncate(0o600)).map_err(|e| format!("mkfifo: {e}"))?;
	}
	// one releaser thread per FIFO: sleep its slot, then open for writing (blocks until the
	// reader has it open), write, close. Works whatever order the reader opens them in.
	let mut handles = vec![];
	for (slot, fi) in case.release.iter().enumerate() {
		let path = real[*fi].path.clone();
		let body = format!("{}\n", case.lines[*fi]);
		handles.push(std::thread::spawn(move || {
			std::thread::sleep(Duration::from_millis(FIFO_GAP_MS * (slot as u64 + 1)));
			if let Ok(mut f) = std::fs::OpenOptions::new().write(true).open(&path) {
				let _ = f.write_all(body.as_bytes());
			}
		}));
	}
	let origin = ctx.origin.clone();
	let built = ctx.rt.block_on(async { tokio::time::timeout(Duration::from_secs(10), IgnoreFilter::new(&origin, &real)).await });
	if built.is_err() {
		// unblock releasers that are still waiting for a reader
		for f in &real {
			let _ = std::fs::OpenOptions::new().read(true).custom_flags_nonblock().open(&f.path);
		}
	}
	for h in handles {
		let _ = h.join();
	}
	remove_files(&real);
	let filter = match built {
		Err(_) => return Err("IgnoreFilter::new did not finish within 10 s on FIFO-backed ignore files".into()),
		Ok(Err(e)) => return Err(format!("IgnoreFilter::new failed on FIFO-backed ignore files: {e}")),
		Ok(Ok(f)) => IgnoreFilterer(f),
	};
	let got = observe(&filter, &ctx.probes, evals);
	let ents = entries(&ctx.probes);
	let mut viols = vec![];
	for (ei, (pi, obs)) in ents.iter().enumerate() {
		let p = &ctx.probes[*pi];
		let a = compose.decide(&p.path, p.is_dir, false);
		let b = compose.decide(&p.path, p.is_dir, true);
		if a.ignored != b.ignored || got[ei] == a.ignored {
			continue;
		}
		viols.push(Viol {
			key: "C03/same-dir-precedence/follows-read-completion-order".into(),
			detail: format!(
				"{} files applying in {:?} listed as {:?}, reads completing in order {:?}: probe {} as {} {obs} says ignored={}, listed order gives ignored={}",
				case.lines.len(),
				case.site,
				case.lines,
				case.release,
				p.rel,
				if p.is_dir { "dir" } else { "file" },
				got[ei],
				a.ignored
			),
			probe: *pi,
			cons: "new(fifo)".into(),
			observable: obs,
		});
		break;
	}
	Ok(viols)
}

trait NonBlock {
	fn custom_flags_nonblock(&mut self) -> &mut Self;
}
impl NonBlock for std::fs::OpenOptions {
	fn custom_flags_nonblock(&mut self) -> &mut Self {
		use std::os::unix::fs::OpenOptionsExt;
		self.custom_flags(0o4000) // O_NONBLOCK on Linux
	}
}

// ---------------------------------------------------------------------------------------

pub fn replay(input: &Value) -> Vec<(String, String)> {
	let scratch = Scratch::new("c03-replay");
	let ctx = Ctx::new(&scratch.path().join(if input["alt"] == true { "tü0-δ" } else { "t0" }));
	if input["kind"] == "fifo" {
		let Some(case) = FifoCase::from_json(input) else { return vec![("C03/replay/bad-input".into(), "cannot parse fifo case".into())] };
		let mut n = 0;
		return match eval_fifo(&ctx, &case, &mut n) {
			Ok(v) => v.into_iter().map(|v| (v.key, v.detail)).collect(),
			Err(e) => vec![("C03/replay/machinery".into(), e)],
		};
	}
	let Some(cfg) = Config::from_json(&input["files"]) else { return vec![("C03/replay/bad-input".into(), "cannot parse files".into())] };
	let ev = eval_config(&ctx, &cfg);
	let want_probe = input["probe"]["path"].as_str();
	let want_dir = input["probe"]["is_dir"].as_bool();
	let mut out: Vec<(String, String)> = vec![];
	for v in ev.viols {
		let p = &ctx.probes[v.probe];
		let same_probe = want_probe.map_or(true, |w| w == p.rel) && want_dir.map_or(true, |d| d == p.is_dir);
		if same_probe || v.observable.is_empty() {
			out.push((v.key, v.detail));
		}
	}
	out
}

fn shuffle<T>(v: &mut [T], seed: u64) {
	if seed == 0 {
		return;
	}
	let mut s = seed ^ 0x9e37_79b9_7f4a_7c15;
	for i in (1..v.len()).rev() {
		s = s.wrapping_mul(6364136223846793005).wrapping_add(1442695040888963407);
		v.swap(i, ((s >> 33) as usize) % (i + 1));
	}
}

pub fn run(tier: Tier, seed: u64) -> EnumOut {
	let rule = "configuration = ignore files (site, lines) in listed order; evaluation = one check_event / check_dir call on one (construction, probe); non-trivial = distinct (configuration-independent) model verdict vectors over all probes that differ from the no-ignore-files vector (all pass)";
	let scratch = Scratch::new("c03");
	let mut cfgs = configs(tier);
	shuffle(&mut cfgs, seed);
	let root = scratch.path().to_path_buf();
	let t0 = std::time::Instant::now();
	let wall_cap = Duration::from_secs(if tier == Tier::Thorough { 500 } else { 120 });
	let mut out = par_map(&cfgs, 16, |chunk, idx| {
		let mut o = EnumOut::new(rule);
		let ctx = Ctx::new(&root.join(format!("t{idx}")));
		let ctx_alt = Ctx::new(&root.join(format!("tü{idx}-δ")));
		let stride = (chunk.len() / 2).max(1);
		let mut unspecified = 0u64;
		let mut constructions_run = 0u64;
		let mut not_run = 0u64;
		let mut alt_run = 0u64;
		for (i, cfg) in chunk.iter().enumerate() {
			if t0.elapsed() > wall_cap {
				not_run += 1;
				continue;
			}
			let ev = eval_config(&ctx, cfg);
			o.states += 1;
			o.evaluations += ev.evals;
			unspecified += ev.unspecified;
			constructions_run += constructions(cfg).len() as u64;
			let ignored: Vec<&str> =
				ev.model_vec.iter().zip(entries(&ctx.probes)).filter(|(m, (_, obs))| **m == Some(true) && *obs == "check_event").map(|(_, (pi, _))| ctx.probes[pi].rel.as_str()).collect();
			if ev.model_vec.iter().any(|m| *m == Some(true)) {
				o.nontrivial_mark(&ev.model_vec);
			}
			if idx < 3 && i % stride == 0 {
				let mut ig: Vec<&str> = ignored.clone();
				ig.dedup();
				o.sample(json!({"files": cfg.json(), "constructions": constructions(cfg).iter().map(Cons::label).collect::<Vec<_>>(), "ignored_probes": ig, "violations": ev.viols.len()}));
			}
			for v in ev.viols {
				let p = &ctx.probes[v.probe];
				o.violate(
					v.key,
					v.detail,
					json!({"kind": "config", "files": cfg.json(), "probe": {"path": p.rel, "is_dir": p.is_dir}, "construction": v.cons, "observable": v.observable}),
				);
			}
			// every fourth configuration also on the alternate fixture (same model, same
			// verdicts expected): directory names with multi-byte characters on the way to
			// every ignore file, ignore files without a final line terminator
			if i % 4 == 0 {
				let ev = eval_config(&ctx_alt, cfg);
				o.evaluations += ev.evals;
				alt_run += 1;
				for v in ev.viols {
					let p = &ctx_alt.probes[v.probe];
					o.violate(
						format!("{}/alternate-fixture", v.key),
						format!("[non-ASCII base directory, ignore files without a final newline] {}", v.detail),
						json!({"kind": "config", "alt": true, "files": cfg.json(), "probe": {"path": p.rel, "is_dir": p.is_dir}, "construction": v.cons, "observable": v.observable}),
					);
				}
			}
		}
		o.extra.insert("probe_entries_unspecified_skipped".into(), json!(unspecified));
		o.extra.insert("constructions_run".into(), json!(constructions_run));
		o.extra.insert("configs_not_run_wall_cap".into(), json!(not_run));
		o.extra.insert("configs_also_on_alternate_fixture".into(), json!(alt_run));
		o
	});
	// read-completion leg
	let mut fcs = fifo_cases(tier);
	shuffle(&mut fcs, seed);
	let fo = par_map(&fcs, 16, |chunk, idx| {
		let mut o = EnumOut::new(rule);
		let ctx = Ctx::new(&root.join(format!("f{idx}")));
		for case in chunk {
			o.states += 1;
			let mut n = 0;
			match eval_fifo(&ctx, case, &mut n) {
				Ok(vs) => {
					for v in vs {
						o.violate(v.key, v.detail, case.json());
					}
				}
				Err(e) => o.machinery = Some(e),
			}
			o.evaluations += n;
		}
		o.extra.insert("fifo_cases".into(), json!(chunk.len()));
		o
	});
	out.merge(fo);
	let nr = out.extra.get("configs_not_run_wall_cap").and_then(Value::as_u64).unwrap_or(0);
	if nr > 0 {
		out.caps.push(format!("wall-clock guard ({} s) reached: {nr} configurations were not run", wall_cap.as_secs()));
	}
	out.rule = rule.to_string();
	out.extra.insert("probes".into(), json!(probe_rels().len() * 2));
	out.assumptions = vec![
		"trusted base: the ignore crate's single-file Gitignore (matched / matched_path_or_any_parents)".into(),
		"global ignore files hold patterns relative to the project origin".into(),
		"a path probed against an ignore file applying in that very path is unspecified and skipped".into(),
	];
	out
}
