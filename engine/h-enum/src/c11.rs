//! C11 — path filter verdicts follow the documented glob, ignore and extension rules.
//!
//! Bounded-exhaustive enumeration of `GlobsetFilterer` configurations x probe events.
//!
//! Configuration = (filters, ignores, extensions, whitelist, ignore file yes/no):
//!   * patterns from the glob grammar {name, *.ext, dir/, /rooted, a/b, **/x, x/**} with
//!     leading-/trailing-slash variants; ignores additionally draw negated (`!p`) patterns,
//!   * filters: every set of 0..=F patterns (non-negated, so order is immaterial),
//!   * ignores: every ORDERED sequence of 0..=I distinct patterns, up to the one equivalence
//!     that swapping two adjacent non-negated patterns cannot matter (runs of non-negated
//!     patterns are kept sorted; order relative to negated patterns is fully enumerated),
//!   * extensions: every subset of {rs, txt}; whitelist: every subset of two files;
//!   * with and without one ignore file (real file in the origin, loaded by the real loader).
//! Probes: every probe path x {file, dir, unknown} inside and outside the origin, two
//! pathless events, and every ordered pair of seven key (path, type) probes as 2-path events.
//!
//! Oracles (from the property statement):
//!   L1 pathless passes; L2 an event naming a whitelisted file passes; L3 otherwise, if the
//!   ignore files reject the event it is rejected ("the ignore files reject" is decided by a
//!   separately built `IgnoreFilterer` over the same file: its own semantics are C03's job);
//!   L4 otherwise pass <=> some path is not ignore-matched and (nothing configured, or
//!   filter-matched, or non-directory with a listed extension). "matched" = last matching
//!   pattern wins and it is not negated, each single pattern decided by the glob library's own
//!   `Gitignore::matched` on a one-pattern set (trusted base): what is checked is this
//!   repository's composition and precedence, not the glob engine;
//!   L5 (oracle-free) inserting a non-negated ignore pattern anywhere into the ignore list
//!   never turns a reject into a pass; L6 the empty configuration passes every probe.
//!
//! Deviations from DESIGN section 7 / exclusions (things the statement leaves open):
//!   * filters are never negated: "filters configured" for a list of only-negated filters is
//!     not defined by the statement;
//!   * no `*/x`-shaped filter: that is the one shape whose verdict the deliberate, source
//!     documented "watchexec 1.x double slash" compatibility retry changes;
//!   * probe file names always have a normal stem (no `.rs`-style dot files), so "has the
//!     extension" is unambiguous;
//!   * quick uses a 10+2 pattern grammar with F = I = 2, thorough a 16+4 grammar with F = 3,
//!     I = 2 (ordered ignore triples over the big grammar do not fit the 10 minute budget).

use std::{
	collections::HashMap,
	ffi::OsString,
	path::PathBuf,
	sync::atomic::{AtomicBool, Ordering},
	time::{Duration, Instant},
};

use dex::orch::Tier;
use ignore::gitignore::GitignoreBuilder;
use ignore_files::{IgnoreFile, IgnoreFilter};
use serde_json::{json, Value};
use watchexec::filter::Filterer;
use watchexec_events::{Event, FileType, Priority, Tag};
use watchexec_filterer_globset::GlobsetFilterer;
use watchexec_filterer_ignore::IgnoreFilterer;

use crate::common::{par_map, EnumOut, Scratch};

// ---------------------------------------------------------------------------------------
// grammar

const BASE_QUICK: &[&str] = &["name", "*.rs", "dir/", "/rooted", "a/b", "**/x", "x/**", "/name", "name/", "/a/b/"];
const NEG_QUICK: &[&str] = &["!name", "!*.rs"];
const BASE_THOROUGH: &[&str] = &[
	"name", "*.rs", "dir/", "/rooted", "a/b", "**/x", "x/**", "/name", "name/", "/a/b/", "*.txt", "/dir/", "/*.rs", "/**/x", "**/x/",
	"/x/**",
];
const NEG_THOROUGH: &[&str] = &["!name", "!*.rs", "!dir/", "!a/b"];

const EXT_SETS: &[&[&str]] = &[&[], &["rs"], &["txt"], &["rs", "txt"]];

/// (relative path, inside the origin?)
const PATHS: &[(&str, bool)] = &[
	("name", true),
	("a.rs", true),
	("b.txt", true),
	("rooted", true),
	("x", true),
	("dir", true),
	("d.rs", true),
	("dir/name", true),
	("dir/a.rs", true),
	("a/b", true),
	("a/b/x", true),
	("sub/rooted", true),
	("sub/a/b", true),
	("x/y", true),
	("x/y/a.rs", true),
	("sub/x", true),
	("sub/name", true),
	("name", false),
	("a.rs", false),
	("x/y", false),
];
/// the two "explicitly watched files" (indices into PATHS)
const WL: [usize; 2] = [2, 7];
const WL_SETS: &[&[usize]] = &[&[], &[2], &[7], &[2, 7]];
/// content of the one ignore file (in the origin, applies in the origin)
const IGNORE_FILE: &str = "b.txt\n/a/b/x\nsub/\n";

#[derive(Clone, Copy, PartialEq, Eq, Hash, Debug)]
enum Ft {
	File,
	Dir,
	Unknown,
}
impl Ft {
	const ALL: [Ft; 3] = [Ft::File, Ft::Dir, Ft::Unknown];
	fn name(self) -> &'static str {
		match self {
			Ft::File => "file",
			Ft::Dir => "dir",
			Ft::Unknown => "unknown",
		}
	}
	fn parse(s: &str) -> Ft {
		match s {
			"file" => Ft::File,
			"dir" => Ft::Dir,
			_ => Ft::Unknown,
		}
	}
	fn real(self) -> Option<FileType> {
		match self {
			Ft::File => Some(FileType::File),
			Ft::Dir => Some(FileType::Dir),
			Ft::Unknown => None,
		}
	}
}

/// key (path, type) probes combined pairwise into 2-path events
const PAIR_KEYS: &[(usize, Ft)] =
	&[(0, Ft::File), (1, Ft::File), (2, Ft::File), (5, Ft::Dir), (13, Ft::Unknown), (18, Ft::File), (7, Ft::File)];

type Probe = Vec<(usize, Ft)>;

fn probes() -> Vec<Probe> {
	let mut v: Vec<Probe> = vec![];
	for p in 0..PATHS.len() {
		for t in Ft::ALL {
			v.push(vec![(p, t)]);
		}
	}
	for a in PAIR_KEYS {
		for b in PAIR_KEYS {
			if a != b {
				v.push(vec![*a, *b]);
			}
		}
	}
	v
}
/// pathless probes come after the path probes: 0 = no tags, 1 = a signal tag
const PATHLESS: usize = 2;

// ---------------------------------------------------------------------------------------
// fixture and trusted-base tables

struct Fixture {
	_scratch: Scratch,
	origin: PathBuf,
	abs: Vec<PathBuf>,
	ignfile: PathBuf,
}

impl Fixture {
	fn new(tag: &str) -> Fixture {
		let scratch = Scratch::new(tag);
		let root = std::fs::canonicalize(scratch.path()).expect("canonical scratch");
		let origin = root.join("o");
		let outside = root.join("outside");
		std::fs::create_dir_all(&origin).unwrap();
		std::fs::create_dir_all(&outside).unwrap();
		let ignfile = origin.join(".gitignore");
		std::fs::write(&ignfile, IGNORE_FILE).unwrap();
		let abs = PATHS.iter().map(|(rel, inside)| if *inside { origin.join(rel) } else { outside.join(rel) }).collect();
		Fixture { _scratch: scratch, origin, abs, ignfile }
	}
	fn event(&self, probe: &Probe) -> Event {
		Event {
			tags: probe.iter().map(|(p, t)| Tag::Path { path: self.abs[*p].clone(), file_type: t.real() }).collect(),
			metadata: Default::default(),
		}
	}
	fn pathless(&self, i: usize) -> Event {
		Event {
			tags: if i == 0 { vec![] } else { vec![Tag::Signal(watchexec_signals::Signal::Interrupt)] },
			metadata: Default::default(),
		}
	}
	fn ignore_files(&self, on: bool) -> Vec<IgnoreFile> {
		if on {
			vec![IgnoreFile { path: self.ignfile.clone(), applies_in: Some(self.origin.clone()), applies_to: None }]
		} else {
			vec![]
		}
	}
}

/// Verdicts of the trusted base: single-pattern `Gitignore::matched` and the ignore-file layer.
struct Tables {
	pats: Vec<String>,
	/// m[pattern][path][is_dir]: 0 no match, 1 match
	m: Vec<Vec<[bool; 2]>>,
	/// the separately built ignore-file filterer rejects probe i (path probes only)
	ign_reject: Vec<bool>,
}

fn negated(p: &str) -> bool {
	p.starts_with('!')
}

impl Tables {
	fn new(rt: &tokio::runtime::Runtime, fx: &Fixture, pats: &[String], probes: &[Probe]) -> Result<Tables, String> {
		let mut m = vec![];
		for p in pats {
			// the pattern itself, without the negation mark, as a one-pattern set
			let body = p.strip_prefix('!').unwrap_or(p);
			let mut b = GitignoreBuilder::new(&fx.origin);
			b.add_line(None, body).map_err(|e| format!("pattern {p:?}: {e}"))?;
			let g = b.build().map_err(|e| format!("pattern {p:?}: {e}"))?;
			m.push(fx.abs.iter().map(|a| [g.matched(a, false).is_ignore(), g.matched(a, true).is_ignore()]).collect());
		}
		let mut igf = rt.block_on(IgnoreFilter::new(&fx.origin, &fx.ignore_files(true))).map_err(|e| format!("ignore file: {e}"))?;
		igf.finish();
		let igf = IgnoreFilterer(igf);
		let ign_reject = probes.iter().map(|p| !igf.check_event(&fx.event(p), Priority::Normal).expect("never errors")).collect();
		Ok(Tables { pats: pats.to_vec(), m, ign_reject })
	}
	/// gitignore list semantics: the last pattern that matches decides; negated = not matched
	fn list_matches(&self, list: &[usize], path: usize, is_dir: bool) -> bool {
		for &p in list.iter().rev() {
			if self.m[p][path][usize::from(is_dir)] {
				return !negated(&self.pats[p]);
			}
		}
		false
	}
}

/// extension of the last component, written out (names here always have a non-empty stem)
fn extension(rel: &str) -> Option<&str> {
	let name = rel.rsplit('/').next().unwrap_or(rel);
	match name.rfind('.') {
		Some(i) if i > 0 && i + 1 < name.len() => Some(&name[i + 1..]),
		_ => None,
	}
}

// ---------------------------------------------------------------------------------------
// configurations and the reference model

#[derive(Clone, Debug)]
struct Config {
	filters: Vec<usize>,
	ignores: Vec<usize>,
	exts: Vec<String>,
	wl: Vec<usize>,
	ignfile: bool,
}

impl Config {
	fn is_empty(&self) -> bool {
		self.filters.is_empty() && self.ignores.is_empty() && self.exts.is_empty() && self.wl.is_empty() && !self.ignfile
	}
	fn json(&self, tb: &Tables) -> Value {
		json!({
			"filters": self.filters.iter().map(|i| tb.pats[*i].clone()).collect::<Vec<_>>(),
			"ignores": self.ignores.iter().map(|i| tb.pats[*i].clone()).collect::<Vec<_>>(),
			"extensions": self.exts,
			"whitelist": self.wl.iter().map(|w| PATHS[*w].0).collect::<Vec<_>>(),
			"ignore_file": if self.ignfile { Value::from(IGNORE_FILE) } else { Value::Null },
		})
	}
}

#[derive(Clone, Copy, PartialEq, Eq, Hash, Debug)]
enum Reason {
	Pathless,
	Whitelisted,
	IgnoreFile,
	IgnorePattern,
	Unfiltered,
	FilterMatch,
	ExtensionMatch,
	FilteredOut,
}
impl Reason {
	fn name(self) -> &'static str {
		match self {
			Reason::Pathless => "pathless",
			Reason::Whitelisted => "whitelisted-file",
			Reason::IgnoreFile => "ignore-file-rejects",
			Reason::IgnorePattern => "ignore-pattern-matches",
			Reason::Unfiltered => "nothing-configured",
			Reason::FilterMatch => "filter-matches",
			Reason::ExtensionMatch => "extension-listed",
			Reason::FilteredOut => "no-filter-or-extension-matches",
		}
	}
	fn law(self) -> &'static str {
		match self {
			Reason::Pathless => "L1",
			Reason::Whitelisted => "L2",
			Reason::IgnoreFile => "L3",
			_ => "L4",
		}
	}
}

/// The property statement as a function. `ign_reject` = the ignore-file layer rejects the event.
fn expected(tb: &Tables, cfg: &Config, probe: &Probe, ign_reject: bool) -> (bool, Reason) {
	if probe.is_empty() {
		return (true, Reason::Pathless);
	}
	if probe.iter().any(|(p, _)| cfg.wl.contains(p)) {
		return (true, Reason::Whitelisted);
	}
	if cfg.ignfile && ign_reject {
		return (false, Reason::IgnoreFile);
	}
	let mut why = Reason::FilteredOut;
	for (i, (p, t)) in probe.iter().enumerate() {
		let is_dir = *t == Ft::Dir;
		let r = if tb.list_matches(&cfg.ignores, *p, is_dir) {
			Reason::IgnorePattern
		} else if cfg.filters.is_empty() && cfg.exts.is_empty() {
			return (true, Reason::Unfiltered);
		} else if tb.list_matches(&cfg.filters, *p, is_dir) {
			return (true, Reason::FilterMatch);
		} else if !is_dir && extension(PATHS[*p].0).map_or(false, |e| cfg.exts.iter().any(|x| x == e)) {
			return (true, Reason::ExtensionMatch);
		} else {
			Reason::FilteredOut
		};
		if i == 0 {
			why = r;
		}
	}
	(false, why)
}

fn build(rt: &tokio::runtime::Runtime, fx: &Fixture, tb: &Tables, cfg: &Config) -> Result<GlobsetFilterer, String> {
	rt.block_on(GlobsetFilterer::new(
		&fx.origin,
		cfg.filters.iter().map(|i| (tb.pats[*i].clone(), None)),
		cfg.ignores.iter().map(|i| (tb.pats[*i].clone(), None)),
		cfg.wl.iter().map(|w| fx.abs[*w].clone()),
		fx.ignore_files(cfg.ignfile),
		cfg.exts.iter().map(OsString::from),
	))
	.map_err(|e| format!("GlobsetFilterer::new failed for {cfg:?}: {e}"))
}

fn probe_json(probe: &Probe) -> Value {
	Value::Array(probe.iter().map(|(p, t)| json!({"path": PATHS[*p].0, "inside_origin": PATHS[*p].1, "type": t.name()})).collect())
}

fn shape(probe: &Probe) -> String {
	match probe.len() {
		0 => "pathless".into(),
		1 => format!("{}-{}", probe[0].1.name(), if PATHS[probe[0].0].1 { "inside" } else { "outside" }),
		_ => "two-paths".into(),
	}
}

/// Compare one real verdict with the statement. Returns (key, detail) on disagreement.
fn judge(tb: &Tables, cfg: &Config, probe: &Probe, ign_reject: bool, actual: bool) -> (Reason, Option<(String, String)>) {
	let (want, why) = expected(tb, cfg, probe, ign_reject);
	if want == actual {
		return (why, None);
	}
	let verdict = |b: bool| if b { "pass" } else { "reject" };
	let key = if cfg.is_empty() {
		format!("C11/L6-empty-configuration-rejects/{}", shape(probe))
	} else {
		format!("C11/{}/expected-{}-because-{}/got-{}/{}", why.law(), verdict(want), why.name(), verdict(actual), shape(probe))
	};
	let detail = format!(
		"config {} event {}: statement gives {} ({}), GlobsetFilterer::check_event gives {}",
		cfg.json(tb),
		probe_json(probe),
		verdict(want),
		why.name(),
		verdict(actual)
	);
	(why, Some((key, detail)))
}

// ---------------------------------------------------------------------------------------
// enumeration helpers

/// all increasing index lists of length 0..=max over 0..n
fn combinations(n: usize, max: usize) -> Vec<Vec<usize>> {
	let mut out = vec![vec![]];
	let mut frontier: Vec<Vec<usize>> = vec![vec![]];
	for _ in 0..max {
		let mut next = vec![];
		for c in &frontier {
			let start = c.last().map_or(0, |l| l + 1);
			for i in start..n {
				let mut d = c.clone();
				d.push(i);
				next.push(d);
			}
		}
		out.extend(next.iter().cloned());
		frontier = next;
	}
	out
}

/// sort every maximal run of non-negated patterns (swapping two adjacent non-negated
/// patterns cannot change a last-match-wins list)
fn canonical(pats: &[String], seq: &[usize]) -> Vec<usize> {
	let mut v = seq.to_vec();
	let mut i = 0;
	while i < v.len() {
		if negated(&pats[v[i]]) {
			i += 1;
			continue;
		}
		let mut j = i;
		while j < v.len() && !negated(&pats[v[j]]) {
			j += 1;
		}
		v[i..j].sort_unstable();
		i = j;
	}
	v
}

/// all canonical ordered sequences of distinct patterns, length 0..=max
fn sequences(pats: &[String], max: usize) -> Vec<Vec<usize>> {
	let mut out = vec![vec![]];
	let mut frontier: Vec<Vec<usize>> = vec![vec![]];
	for _ in 0..max {
		let mut next = vec![];
		for c in &frontier {
			for i in 0..pats.len() {
				if c.contains(&i) {
					continue;
				}
				let mut d = c.clone();
				d.push(i);
				if canonical(pats, &d) == d {
					next.push(d);
				}
			}
		}
		out.extend(next.iter().cloned());
		frontier = next;
	}
	out
}

struct Unit {
	filters: Vec<usize>,
	exts: Vec<String>,
	wl: Vec<usize>,
	ignfile: bool,
}

fn runtime() -> tokio::runtime::Runtime {
	tokio::runtime::Builder::new_current_thread().enable_all().build().expect("tokio runtime")
}

// ---------------------------------------------------------------------------------------

pub fn run(tier: Tier, seed: u64) -> EnumOut {
	let (base, neg, max_f, max_i, budget) = match tier {
		Tier::Quick => (BASE_QUICK, NEG_QUICK, 2, 2, Duration::from_secs(25)),
		Tier::Thorough => (BASE_THOROUGH, NEG_THOROUGH, 3, 2, Duration::from_secs(540)),
	};
	let rule = "non-trivial = distinct (probe event, deciding clause of the statement) pairs over evaluations not decided by 'nothing configured' (the empty-configuration clause); per-clause evaluation counts in `by_clause`";
	let mut out = EnumOut::new(rule);
	out.assumptions = vec![
		"trusted base: ignore::gitignore::Gitignore::matched on one-pattern sets decides whether a single glob matches a path".into(),
		"trusted base: a separately built IgnoreFilterer decides whether the ignore file rejects an event (its semantics are C03)".into(),
		"filters are non-negated patterns; no */x-shaped filter (deliberate 1.x double-slash compatibility); file names have a normal stem".into(),
	];

	let pats: Vec<String> = base.iter().chain(neg.iter()).map(|s| s.to_string()).collect();
	let n_base = base.len();
	let fx = Fixture::new("c11");
	let probes = probes();
	let rt0 = runtime();
	let tb = match Tables::new(&rt0, &fx, &pats, &probes) {
		Ok(t) => t,
		Err(e) => {
			out.machinery = Some(e);
			return out;
		}
	};
	drop(rt0);

	let filter_sets = combinations(n_base, max_f);
	let ignore_seqs = sequences(&pats, max_i);
	let index: HashMap<Vec<usize>, usize> = ignore_seqs.iter().cloned().enumerate().map(|(i, s)| (s, i)).collect();

	let mut units = vec![];
	for f in &filter_sets {
		for e in EXT_SETS {
			for w in WL_SETS {
				for ignfile in [false, true] {
					units.push(Unit { filters: f.clone(), exts: e.iter().map(|s| s.to_string()).collect(), wl: w.to_vec(), ignfile });
				}
			}
		}
	}
	// seed only permutes the work order (also balances the static chunks)
	let mut s = seed.wrapping_mul(0x9E37_79B9_7F4A_7C15).wrapping_add(0x1234_5678_9ABC_DEF1);
	for i in (1..units.len()).rev() {
		s = s.wrapping_mul(6364136223846793005).wrapping_add(1442695040888963407);
		let j = ((s >> 33) as usize) % (i + 1);
		units.swap(i, j);
	}

	let t0 = Instant::now();
	let cut = AtomicBool::new(false);
	let n_events = probes.len() + PATHLESS;
	let events: Vec<Event> = probes.iter().map(|p| fx.event(p)).chain((0..PATHLESS).map(|i| fx.pathless(i))).collect();
	let no_paths: Probe = vec![];

	let mut res = par_map(&units, 16, |chunk, _| {
		let mut o = EnumOut::default();
		let rt = runtime();
		let mut by_clause: HashMap<Reason, u64> = HashMap::new();
		let mut sampled: Vec<Reason> = vec![];
		let (mut rejects, mut l5_pairs, mut table_hits) = (0u64, 0u64, 0u64);
		for u in chunk {
			if t0.elapsed() > budget {
				cut.store(true, Ordering::Relaxed);
				break;
			}
			let mut verdicts: Vec<Vec<bool>> = Vec::with_capacity(ignore_seqs.len());
			for seq in &ignore_seqs {
				let cfg = Config { filters: u.filters.clone(), ignores: seq.clone(), exts: u.exts.clone(), wl: u.wl.clone(), ignfile: u.ignfile };
				let f = match build(&rt, &fx, &tb, &cfg) {
					Ok(f) => f,
					Err(e) => {
						o.machinery = Some(e);
						return o;
					}
				};
				o.states += 1;
				let mut row = Vec::with_capacity(n_events);
				for (ei, ev) in events.iter().enumerate() {
					let actual = f.check_event(ev, Priority::Normal).expect("check_event never errors");
					o.evaluations += 1;
					row.push(actual);
					let (probe, ign_reject) = if ei < probes.len() { (&probes[ei], tb.ign_reject[ei]) } else { (&no_paths, false) };
					if cfg.ignfile && ign_reject {
						table_hits += 1;
					}
					let (why, bad) = judge(&tb, &cfg, probe, ign_reject, actual);
					*by_clause.entry(why).or_default() += 1;
					if !actual {
						rejects += 1;
					}
					if why != Reason::Unfiltered {
						o.nontrivial_mark((ei, why));
					}
					if let Some((key, detail)) = bad {
						o.violate(key, detail, json!({"law": "verdict", "config": cfg.json(&tb), "event": probe_json(probe)}));
					} else if !sampled.contains(&why) {
						sampled.push(why);
						o.sample(json!({"config": cfg.json(&tb), "event": probe_json(probe), "verdict": if actual {"pass"} else {"reject"}, "clause": why.name()}));
					}
				}
				verdicts.push(row);
			}
			// L5: inserting a non-negated ignore pattern anywhere never turns reject into pass
			for (si, seq) in ignore_seqs.iter().enumerate() {
				if seq.len() >= max_i {
					continue;
				}
				for p in 0..n_base {
					if seq.contains(&p) {
						continue;
					}
					for pos in 0..=seq.len() {
						let mut bigger = seq.clone();
						bigger.insert(pos, p);
						let Some(&bi) = index.get(&canonical(&pats, &bigger)) else { continue };
						l5_pairs += 1;
						for ei in 0..n_events {
							if verdicts[bi][ei] && !verdicts[si][ei] {
								let probe = if ei < probes.len() { &probes[ei] } else { &no_paths };
								let cfg = Config { filters: u.filters.clone(), ignores: seq.clone(), exts: u.exts.clone(), wl: u.wl.clone(), ignfile: u.ignfile };
								o.violate(
									format!("C11/L5-added-ignore-pattern-turns-reject-into-pass/{}", shape(probe)),
									format!(
										"config {} rejects event {}, but with ignore pattern {:?} inserted at position {pos} it passes",
										cfg.json(&tb),
										probe_json(probe),
										pats[p]
									),
									json!({"law": "L5", "config": cfg.json(&tb), "event": probe_json(probe), "added": pats[p], "position": pos}),
								);
							}
						}
					}
				}
			}
		}
		for (r, n) in by_clause {
			o.extra.insert(format!("clause:{}", r.name()), json!(n));
		}
		o.extra.insert("rejects".into(), json!(rejects));
		o.extra.insert("l5_config_pairs".into(), json!(l5_pairs));
		o.extra.insert("ignore_file_rejecting_evaluations".into(), json!(table_hits));
		o
	});

	if cut.load(Ordering::Relaxed) {
		res.caps.push(format!("wall budget of {} s reached before all {} work units were enumerated", budget.as_secs(), units.len()));
	}
	// fold the per-clause counters into one object
	let mut by = serde_json::Map::new();
	let keys: Vec<String> = res.extra.keys().filter(|k| k.starts_with("clause:")).cloned().collect();
	for k in keys {
		if let Some(v) = res.extra.remove(&k) {
			by.insert(k["clause:".len()..].to_string(), v);
		}
	}
	res.extra.insert("by_clause".into(), Value::Object(by));
	res.extra.insert(
		"grammar".into(),
		json!({
			"filter_patterns": base, "ignore_patterns": pats, "max_filters": max_f, "max_ignores": max_i,
			"filter_sets": filter_sets.len(), "ignore_sequences": ignore_seqs.len(),
			"extension_sets": EXT_SETS.len(), "whitelist_sets": WL_SETS.len(), "ignore_file": [false, true],
			"probe_events": n_events, "probe_paths": PATHS.len(),
		}),
	);
	whitelist_leg(tier, &mut res);
	same_file_twice_leg(&mut res);
	repeated_pattern_leg(&fx, &tb, n_base, &probes, &events, &mut res);
	res.rule = out.rule;
	res.assumptions = out.assumptions;
	let _ = WL;
	res
}

/// Repeated-pattern leg: a pattern list is ordered and the last match decides, so a pattern
/// given again after a negation overrides that negation (`*.rs`, `!*.rs`, `*.rs`), and a
/// negation given again after a pattern overrides the pattern. Every (pattern, negation)
/// pair as `[P, N, P]` and `[N, P, N]` in the ignore list — alone and with a repeated filter —
/// judged by the same reference as the main enumeration.
fn repeated_pattern_leg(fx: &Fixture, tb: &Tables, n_base: usize, probes: &[Probe], events: &[Event], res: &mut EnumOut) {
	let rt = runtime();
	let no_paths: Probe = vec![];
	let mut n = 0u64;
	for p in 0..n_base {
		for ng in n_base..tb.pats.len() {
			for ignores in [vec![p, ng, p], vec![ng, p, ng], vec![p, p, ng], vec![ng, p, p]] {
				for filters in [vec![], vec![p, p], vec![0, p, 0]] {
					let cfg = Config { filters, ignores: ignores.clone(), exts: vec![], wl: vec![], ignfile: false };
					let f = match build(&rt, fx, tb, &cfg) {
						Ok(f) => f,
						Err(e) => {
							res.machinery = Some(e);
							return;
						}
					};
					res.states += 1;
					n += 1;
					for (ei, ev) in events.iter().enumerate() {
						let actual = f.check_event(ev, Priority::Normal).expect("check_event never errors");
						res.evaluations += 1;
						let probe = if ei < probes.len() { &probes[ei] } else { &no_paths };
						let (why, bad) = judge(tb, &cfg, probe, false, actual);
						if why != Reason::Unfiltered {
							res.nontrivial_mark((ei, why, "repeat"));
						}
						if let Some((key, detail)) = bad {
							res.violate(format!("{key}/repeated-pattern"), detail, json!({"law": "verdict", "config": cfg.json(tb), "event": probe_json(probe)}));
						}
					}
				}
			}
		}
	}
	res.extra.insert("repeated_pattern_leg".into(), json!(format!("{n} configurations with a pattern repeated around a negation")));
}

// ---------------------------------------------------------------------------------------
// whitelist-lookup leg: several explicitly watched files at once

/// Names whose byte order and path-component order disagree ('-', '.', ' ' sort before '/'),
/// plus ordinary ones: any data structure used to look a whitelisted file up must find
/// every entry, in whatever order the entries were given.
const WL_POOL: &[&str] = &["src/main.rs", "src-gen/out.rs", "src.d/x.rs", "src", "conf/app.toml", "conf.d/l.toml", "a b/x", "a/b"];

fn wl_case(rt: &tokio::runtime::Runtime, origin: &std::path::Path, order: &[usize], evals: &mut u64) -> Result<Vec<(String, String)>, String> {
	let abs: Vec<PathBuf> = order.iter().map(|i| origin.join(WL_POOL[*i])).collect();
	// everything is ignored by pattern: only the whitelist lets a file through
	let f = rt
		.block_on(GlobsetFilterer::new(origin, vec![], vec![("*".to_string(), None)], abs.clone(), vec![], vec![]))
		.map_err(|e| format!("GlobsetFilterer::new failed for whitelist {abs:?}: {e}"))?;
	let mut v = vec![];
	for (i, rel) in WL_POOL.iter().enumerate() {
		let p = origin.join(rel);
		let ev = Event { tags: vec![Tag::Path { path: p, file_type: Some(FileType::File) }], metadata: Default::default() };
		*evals += 1;
		let pass = f.check_event(&ev, Priority::Normal).map_err(|e| e.to_string())?;
		let listed = order.contains(&i);
		if listed && !pass {
			v.push((
				"C11/whitelisted-file-rejected/several-whitelisted-files".to_string(),
				format!("whitelist {:?} (in this order), ignore pattern \"*\": the event naming the explicitly watched file {rel:?} is rejected", order.iter().map(|i| WL_POOL[*i]).collect::<Vec<_>>()),
			));
		} else if !listed && pass {
			v.push((
				"C11/ignored-file-passes/several-whitelisted-files".to_string(),
				format!("whitelist {:?}, ignore pattern \"*\": {rel:?} is not whitelisted but passes", order.iter().map(|i| WL_POOL[*i]).collect::<Vec<_>>()),
			));
		}
		// the same file named with a different spelling of the same path (doubled separator,
		// `.` component, trailing separator) is still that explicitly watched file
		if listed && order.len() <= 2 {
			let o = origin.to_string_lossy();
			for (how, spelled) in [("doubled-separator", format!("{o}//{rel}")), ("dot-component", format!("{o}/./{rel}")), ("trailing-separator", format!("{o}/{rel}/"))] {
				let ev = Event { tags: vec![Tag::Path { path: PathBuf::from(&spelled), file_type: Some(FileType::File) }], metadata: Default::default() };
				*evals += 1;
				if !f.check_event(&ev, Priority::Normal).map_err(|e| e.to_string())? {
					v.push((
						format!("C11/whitelisted-file-rejected/other-spelling-of-the-path/{how}"),
						format!("whitelist {:?}: the event naming {spelled:?} (the explicitly watched {rel:?}) is rejected", order.iter().map(|i| WL_POOL[*i]).collect::<Vec<_>>()),
					));
				}
			}
		}
	}
	// ... and the other way round: the whitelist entry is spelled unusually, the event plainly
	if order.len() == 1 {
		let rel = WL_POOL[order[0]];
		let o = origin.to_string_lossy();
		for (how, spelled) in [("doubled-separator", format!("{o}//{rel}")), ("dot-component", format!("{o}/./{rel}")), ("trailing-separator", format!("{o}/{rel}/"))] {
			let g = rt
				.block_on(GlobsetFilterer::new(origin, vec![], vec![("*".to_string(), None)], vec![PathBuf::from(&spelled)], vec![], vec![]))
				.map_err(|e| format!("GlobsetFilterer::new failed for whitelist [{spelled:?}]: {e}"))?;
			let ev = Event { tags: vec![Tag::Path { path: origin.join(rel), file_type: Some(FileType::File) }], metadata: Default::default() };
			*evals += 1;
			if !g.check_event(&ev, Priority::Normal).map_err(|e| e.to_string())? {
				v.push((
					format!("C11/whitelisted-file-rejected/other-spelling-of-the-path/whitelist-{how}"),
					format!("whitelist [{spelled:?}]: the event naming {:?} is rejected", origin.join(rel)),
				));
			}
		}
	}
	Ok(v)
}

fn wl_orders(max: usize) -> Vec<Vec<usize>> {
	let mut out: Vec<Vec<usize>> = vec![];
	let mut frontier: Vec<Vec<usize>> = vec![vec![]];
	for _ in 0..max {
		let mut next = vec![];
		for o in &frontier {
			for i in 0..WL_POOL.len() {
				if !o.contains(&i) {
					let mut n = o.clone();
					n.push(i);
					next.push(n);
				}
			}
		}
		out.extend(next.iter().cloned());
		frontier = next;
	}
	out
}

fn whitelist_leg(tier: Tier, res: &mut EnumOut) {
	let rt = runtime();
	let fx = Fixture::new("c11-wl");
	let origin = fx.origin.clone();
	let orders = wl_orders(if tier == Tier::Thorough { 5 } else { 4 });
	let mut evals = 0u64;
	let mut n = 0u64;
	for o in &orders {
		n += 1;
		match wl_case(&rt, &origin, o, &mut evals) {
			Ok(v) => {
				for (k, d) in v {
					res.violate(k, d, json!({"law": "whitelist-lookup", "whitelist": o.iter().map(|i| WL_POOL[*i]).collect::<Vec<_>>()}));
				}
			}
			Err(e) => {
				res.violate("C11/whitelist-leg/construction-error", e, json!({"law": "whitelist-lookup", "whitelist": o.iter().map(|i| WL_POOL[*i]).collect::<Vec<_>>()}));
			}
		}
	}
	res.states += n;
	res.evaluations += evals;
	res.extra.insert("whitelist_lookup_leg".into(), json!({"pool": WL_POOL, "ordered_whitelists": n, "evaluations": evals}));
}

/// Same-file-twice leg: one ignore file listed twice with different scopes (as the CLI does for
/// an `--ignore-file` that discovery also finds). Differential: the globset filterer built with
/// only that list must agree with `IgnoreFilter::new` on the same list.
fn same_file_twice_leg(res: &mut EnumOut) {
	let rt = runtime();
	let fx = Fixture::new("c11-twice");
	let sub = fx.origin.join("sub");
	let _ = std::fs::create_dir_all(&sub);
	let file = sub.join(".extra-ignore");
	let _ = std::fs::write(&file, "*.tmp\n");
	let scoped = IgnoreFile { path: file.clone(), applies_in: Some(sub.clone()), applies_to: None };
	let global = IgnoreFile { path: file.clone(), applies_in: None, applies_to: None };
	let mut n = 0u64;
	for (label, list) in [("scoped-then-global", vec![scoped.clone(), global.clone()]), ("global-then-scoped", vec![global.clone(), scoped.clone()]), ("scoped-twice", vec![scoped.clone(), scoped.clone()])] {
		let reference = rt.block_on(IgnoreFilter::new(&fx.origin, &list));
		let subject = rt.block_on(GlobsetFilterer::new(&fx.origin, vec![], vec![], vec![], list.clone(), vec![]));
		let (Ok(mut reference), Ok(subject)) = (reference, subject) else {
			res.violate(format!("C11/same-ignore-file-listed-twice/{label}/construction-error"), "construction failed", json!({"law": "same-file-twice", "list": label}));
			continue;
		};
		reference.finish();
		let reference = IgnoreFilterer(reference);
		for rel in ["a.tmp", "sub/b.tmp", "other/c.tmp", "sub/deep/d.tmp", "a.txt"] {
			let ev = Event { tags: vec![Tag::Path { path: fx.origin.join(rel), file_type: Some(FileType::File) }], metadata: Default::default() };
			n += 1;
			let want = reference.check_event(&ev, Priority::Normal).unwrap_or(true);
			let got = subject.check_event(&ev, Priority::Normal).unwrap_or(true);
			if want != got {
				res.violate(
					format!("C11/same-ignore-file-listed-twice/{label}"),
					format!("ignore file sub/.extra-ignore (*.tmp) listed {label}: the loaded ignore files {} {rel}, the globset filterer {} it", if want { "pass" } else { "reject" }, if got { "passes" } else { "rejects" }),
					json!({"law": "same-file-twice", "list": label}),
				);
			}
		}
	}
	res.states += 3;
	res.evaluations += n;
	res.extra.insert("same_file_twice_leg".into(), json!({"lists": 3, "evaluations": n}));
}

// ---------------------------------------------------------------------------------------
// replay of one recorded case

fn parse_probe(v: &Value) -> Result<Probe, String> {
	let mut probe = vec![];
	for e in v.as_array().ok_or("event is not an array")? {
		let rel = e["path"].as_str().ok_or("event path")?;
		let inside = e["inside_origin"].as_bool().ok_or("event inside_origin")?;
		let idx = PATHS.iter().position(|(r, i)| *r == rel && *i == inside).ok_or_else(|| format!("unknown probe path {rel}"))?;
		probe.push((idx, Ft::parse(e["type"].as_str().unwrap_or("unknown"))));
	}
	Ok(probe)
}

fn strings(v: &Value) -> Vec<String> {
	v.as_array().map(|a| a.iter().filter_map(|s| s.as_str().map(str::to_string)).collect()).unwrap_or_default()
}

pub fn replay(input: &Value) -> Vec<(String, String)> {
	let go = || -> Result<Vec<(String, String)>, String> {
		if input["law"].as_str() == Some("same-file-twice") {
			let mut o = EnumOut::new("replay");
			same_file_twice_leg(&mut o);
			return Ok(o.violations.into_iter().map(|c| (c.key, c.detail)).collect());
		}
		if input["law"].as_str() == Some("whitelist-lookup") {
			let order = strings(&input["whitelist"])
				.iter()
				.map(|w| WL_POOL.iter().position(|p| p == w).ok_or_else(|| format!("unknown whitelist pool entry {w}")))
				.collect::<Result<Vec<_>, _>>()?;
			let mut n = 0;
			let fx = Fixture::new("c11-wl-replay");
			return wl_case(&runtime(), &fx.origin, &order, &mut n);
		}
		let c = &input["config"];
		let filters = strings(&c["filters"]);
		let ignores = strings(&c["ignores"]);
		let added = input["added"].as_str().map(str::to_string);
		let mut pats: Vec<String> = vec![];
		for p in filters.iter().chain(ignores.iter()).chain(added.iter()) {
			if !pats.contains(p) {
				pats.push(p.clone());
			}
		}
		let idx = |p: &String| pats.iter().position(|q| q == p).unwrap();
		let wl = strings(&c["whitelist"])
			.iter()
			.map(|w| PATHS.iter().position(|(r, i)| r == w && *i).ok_or_else(|| format!("unknown whitelist file {w}")))
			.collect::<Result<Vec<_>, _>>()?;
		let cfg = Config {
			filters: filters.iter().map(idx).collect(),
			ignores: ignores.iter().map(idx).collect(),
			exts: strings(&c["extensions"]),
			wl,
			ignfile: !c["ignore_file"].is_null(),
		};
		let probe = parse_probe(&input["event"])?;
		let fx = Fixture::new("c11-replay");
		let rt = runtime();
		let probes = vec![probe.clone()];
		let tb = Tables::new(&rt, &fx, &pats, &probes)?;
		let ev = if probe.is_empty() { fx.pathless(0) } else { fx.event(&probe) };
		let ign_reject = !probe.is_empty() && tb.ign_reject[0];
		let f = build(&rt, &fx, &tb, &cfg)?;
		let actual = f.check_event(&ev, Priority::Normal).map_err(|e| e.to_string())?;
		let mut v = vec![];
		if input["law"].as_str() == Some("L5") {
			let p = idx(added.as_ref().ok_or("L5 case without added pattern")?);
			let pos = input["position"].as_u64().unwrap_or(0) as usize;
			let mut bigger = cfg.clone();
			bigger.ignores.insert(pos.min(bigger.ignores.len()), p);
			let g = build(&rt, &fx, &tb, &bigger)?;
			let after = g.check_event(&ev, Priority::Normal).map_err(|e| e.to_string())?;
			if after && !actual {
				v.push((
					format!("C11/L5-added-ignore-pattern-turns-reject-into-pass/{}", shape(&probe)),
					format!("config {} rejects event {}, but with ignore pattern {:?} inserted at position {pos} it passes", cfg.json(&tb), probe_json(&probe), pats[p]),
				));
			}
		} else if let (_, Some(bad)) = judge(&tb, &cfg, &probe, ign_reject, actual) {
			v.push(bad);
		}
		Ok(v)
	};
	match go() {
		Ok(v) => v,
		Err(e) => vec![("C11/replay-machinery".into(), e)],
	}
}
