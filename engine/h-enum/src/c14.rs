//! C14 — ignore-file discovery finds exactly the applicable files and prunes ignored dirs.
//!
//! Bounded-exhaustive enumeration (engine ENUM, DESIGN.md section 7 "C14") of
//! `ignore_files::from_origin` on materialised trees under /dev/shm.
//!
//! *Trees*: origin `o/`; level-1 child sets = all subsets of {test, tests, a} of size <= 2
//! (prefix-related siblings included); below a level-1 directory: nothing or `a` (quick),
//! nothing | `a` | `a/a` | {test, tests} (thorough)  -> 19 / 61 shapes, depth <= 3, fan-out
//! <= 2. Every directory holds a regular non-ignore file `f.txt`.
//! *Listing order*: every shape is materialised once per sibling creation order (2^k for k
//! directories with two children; tmpfs lists in creation order, which the harness
//! verifies by reading the directories back) and every configuration is run on all of them.
//! *VCS*: none | `.git/` (with decoy ignore files inside it and `info/`) | `.hg/` (thorough).
//! *Marker mode*: off | every directory (also the ones inside VCS metadata) | only the
//! directories without sub-directories hold a non-empty `.ignore` that ignores nothing, so
//! the result shows exactly which directories were entered.
//! *Placed files* (<= 2): slot = (directory, `.gitignore` | `.ignore` | `.hgignore`) or an
//! origin-level VCS file (`.git/info/exclude`, `.bzrignore`, `_darcs/prefs/boring`,
//! `.fossil-settings/ignore-glob`), an explicit ignore file outside the origin, or a file
//! named by `core.excludesFile` in `.git/config`; content = empty | comment only | a file
//! pattern | `a/` | `/test` | `tests/` | `!a/` | `*`.
//! *Explicit watches*: none | one sub-directory | one file (every directory of the shape).
//! *Oracle*: the reference walk (`expected`): a directory is entered iff it is the origin, or
//! its parent is entered and it is not an origin-level VCS metadata directory, it is
//! related to an explicit watch (below one or above one) when watches are given, and
//! IgnoreCompose (c03::model) over the files found in its ancestors (+ origin-level VCS
//! files, explicit files, the excludesFile as global) does not ignore it; the result is
//! every regular non-empty `.ignore/.gitignore/.hgignore` in an entered directory tagged
//! with that directory, plus the origin-level VCS files that exist and are non-empty.
//! Compared as a set of (path, applies_in, applies_to) — explicit ignore files themselves
//! are left out of the comparison (the statement does not say whether they are returned);
//! the error list must be empty; identical on every listing order.
//! Where several files apply in one directory their mutual precedence is taken from the
//! order of the implementation's own result (listed order = precedence, C03), so no
//! particular order of `.ignore/.gitignore/.hgignore` is demanded.
//! Unspecified and skipped: configurations in which an origin-level file would ignore the
//! origin itself (C03's "file stored in that very directory" exclusion).
//!
//! Deviations from DESIGN.md: VCS metadata directories only at the origin level (whether a
//! nested `.git` is "VCS metadata" is not stated); pairs of placed files are enumerated over
//! a reduced kind/content grammar in quick and on thorough's larger shapes, and without an
//! explicit watch (see `configs`); a wall-clock guard (thorough) stops handing out work
//! after 8.5 minutes and records a cap.

use std::{
	collections::{BTreeMap, BTreeSet},
	path::{Path, PathBuf},
};

use dex::orch::Tier;
use ignore_files::{from_origin, IgnoreFilesFromOriginArgs};
use project_origins::ProjectType;
use serde_json::{json, Value};

use crate::{
	c03::model::{Compose, MFile},
	common::{par_map, EnumOut, Scratch},
};

const NAMES: [&str; 3] = [".ignore", ".gitignore", ".hgignore"];
const VCS_DIRS: [&str; 7] = [".git", ".hg", ".bzr", "_darcs", ".fossil-settings", ".svn", ".pijul"];
const MARKER: &str = "zz-marker-matches-nothing\n";
// "a" and "*" without a line terminator: the shortest non-empty ignore files there are
/// stands for an ignore file that is not valid UTF-8 (it cannot be loaded: it is still an
/// ignore file that was found, it contributes no patterns, and what was loaded before it for
/// the same directory stays in force)
const BROKEN: &str = "<<not utf-8>>";
const CONTENTS: [&str; 11] = ["", "# only a comment\n", "x.log\n", "a/\n", "/test\n", "tests/\n", "!a/\n", "*\n", "a", "*", BROKEN];
const CONTENTS_PAIR: [&str; 6] = ["x.log\n", "a/\n", "!a/\n", "/test\n", "*\n", BROKEN];

fn tag_for(name: &str) -> Option<ProjectType> {
	match name {
		".gitignore" => Some(ProjectType::Git),
		".hgignore" => Some(ProjectType::Mercurial),
		_ => None,
	}
}

// ----------------------------------------------------------------------------- shapes

#[derive(Clone, Debug, PartialEq, Eq)]
struct Node {
	name: String,
	kids: Vec<Node>,
}

fn leaf(n: &str) -> Node {
	Node { name: n.into(), kids: vec![] }
}

fn sub_options(tier: Tier) -> Vec<Vec<Node>> {
	let mut v = vec![vec![], vec![leaf("a")]];
	if tier == Tier::Thorough {
		v.push(vec![Node { name: "a".into(), kids: vec![leaf("a")] }]);
		v.push(vec![leaf("test"), leaf("tests")]);
	}
	v
}

fn shapes(tier: Tier) -> Vec<Node> {
	let l1: [&[&str]; 7] = [&[], &["test"], &["tests"], &["a"], &["test", "tests"], &["test", "a"], &["tests", "a"]];
	let subs = sub_options(tier);
	let mut out = vec![];
	for set in l1 {
		let mut partial: Vec<Vec<Node>> = vec![vec![]];
		for name in set {
			let mut next = vec![];
			for p in &partial {
				for s in &subs {
					let mut q = p.clone();
					q.push(Node { name: (*name).into(), kids: s.clone() });
					next.push(q);
				}
			}
			partial = next;
		}
		for kids in partial {
			out.push(Node { name: String::new(), kids });
		}
	}
	out
}

/// all sibling creation orders
fn orderings(n: &Node) -> Vec<Node> {
	let mut kid_variants: Vec<Vec<Node>> = vec![vec![]];
	for k in &n.kids {
		let mut next = vec![];
		for v in &kid_variants {
			for ko in orderings(k) {
				let mut q = v.clone();
				q.push(ko);
				next.push(q);
			}
		}
		kid_variants = next;
	}
	let mut out = vec![];
	for kv in kid_variants {
		if kv.len() == 2 {
			out.push(Node { name: n.name.clone(), kids: vec![kv[1].clone(), kv[0].clone()] });
		}
		out.push(Node { name: n.name.clone(), kids: kv });
	}
	out
}

/// directories relative to the origin in creation (pre-)order; "" = origin, not included
fn preorder(n: &Node, prefix: &str, out: &mut Vec<String>) {
	for k in &n.kids {
		let p = if prefix.is_empty() { k.name.clone() } else { format!("{prefix}/{}", k.name) };
		out.push(p.clone());
		preorder(k, &p, out);
	}
}

fn node_from_dirs(dirs: &[String]) -> Node {
	fn insert(n: &mut Node, parts: &[&str]) {
		if parts.is_empty() {
			return;
		}
		if let Some(k) = n.kids.iter_mut().find(|k| k.name == parts[0]) {
			insert(k, &parts[1..]);
		} else {
			let mut k = leaf(parts[0]);
			insert(&mut k, &parts[1..]);
			n.kids.push(k);
		}
	}
	let mut root = leaf("");
	for d in dirs {
		insert(&mut root, &d.split('/').collect::<Vec<_>>());
	}
	root
}

// ----------------------------------------------------------------------------- configs

#[derive(Clone, Copy, Debug, PartialEq, Eq, Hash)]
enum Vcs {
	None,
	Git,
	Hg,
}

impl Vcs {
	fn name(self) -> &'static str {
		match self {
			Vcs::None => "none",
			Vcs::Git => "git",
			Vcs::Hg => "hg",
		}
	}
	fn parse(s: &str) -> Vcs {
		match s {
			"git" => Vcs::Git,
			"hg" => Vcs::Hg,
			_ => Vcs::None,
		}
	}
	/// metadata directories (relative to the origin) that exist with this option
	fn dirs(self) -> &'static [&'static str] {
		match self {
			Vcs::None => &[],
			Vcs::Git => &[".git", ".git/info", ".git/sub"],
			Vcs::Hg => &[".hg", ".hg/store"],
		}
	}
	/// decoy ignore files inside the metadata (must never be returned)
	fn decoys(self) -> &'static [&'static str] {
		match self {
			Vcs::None => &[],
			Vcs::Git => &[".git/.gitignore", ".git/sub/.gitignore", ".git/sub/.ignore"],
			Vcs::Hg => &[".hg/.hgignore", ".hg/store/.ignore"],
		}
	}
}

#[derive(Clone, Debug, PartialEq, Eq, Hash)]
enum Slot {
	Dir { dir: String, name: &'static str },
	GitInfoExclude,
	Bzr,
	Darcs,
	Fossil,
	Explicit,
	GitConfigExcludes,
}

impl Slot {
	fn label(&self) -> String {
		match self {
			Slot::Dir { dir, name } => format!("dir:{dir}:{name}"),
			Slot::GitInfoExclude => "git-info-exclude".into(),
			Slot::Bzr => "bzrignore".into(),
			Slot::Darcs => "darcs-boring".into(),
			Slot::Fossil => "fossil-ignore-glob".into(),
			Slot::Explicit => "explicit-ignore-file".into(),
			Slot::GitConfigExcludes => "git-config-excludesfile".into(),
		}
	}
	fn parse(s: &str) -> Option<Slot> {
		Some(match s {
			"git-info-exclude" => Slot::GitInfoExclude,
			"bzrignore" => Slot::Bzr,
			"darcs-boring" => Slot::Darcs,
			"fossil-ignore-glob" => Slot::Fossil,
			"explicit-ignore-file" => Slot::Explicit,
			"git-config-excludesfile" => Slot::GitConfigExcludes,
			other => {
				let mut it = other.splitn(3, ':');
				if it.next()? != "dir" {
					return None;
				}
				let dir = it.next()?.to_string();
				let name = it.next()?;
				Slot::Dir { dir, name: NAMES.iter().copied().find(|n| *n == name)? }
			}
		})
	}
	/// path relative to the origin (`None`: lives outside the origin)
	fn rel(&self) -> Option<String> {
		match self {
			Slot::Dir { dir, name } => Some(if dir.is_empty() { (*name).to_string() } else { format!("{dir}/{name}") }),
			Slot::GitInfoExclude => Some(".git/info/exclude".into()),
			Slot::Bzr => Some(".bzrignore".into()),
			Slot::Darcs => Some("_darcs/prefs/boring".into()),
			Slot::Fossil => Some(".fossil-settings/ignore-glob".into()),
			Slot::Explicit | Slot::GitConfigExcludes => None,
		}
	}
}

#[derive(Clone, Debug, PartialEq, Eq, Hash)]
struct Config {
	files: Vec<(Slot, String)>,
	/// relative to the origin
	watch: Option<String>,
}

impl Config {
	fn json(&self, g: &Group) -> Value {
		json!({
			"dirs": g.dirs,
			"vcs": g.vcs.name(),
			"marker": g.marker.name(),
			"files": self.files.iter().map(|(s, c)| json!({"slot": s.label(), "content": c})).collect::<Vec<_>>(),
			"watch": self.watch,
		})
	}
}

/// what is materialised once and shared by many configurations
#[derive(Clone, Debug)]
struct Group {
	/// shape directories in canonical (first) creation order
	dirs: Vec<String>,
	shape: Node,
	vcs: Vcs,
	marker: Marker,
	/// one of the quick tier's shapes
	small: bool,
}

/// which directories hold a non-empty `.ignore` that ignores nothing
#[derive(Clone, Copy, Debug, PartialEq, Eq, Hash)]
enum Marker {
	Off,
	/// every directory, also the ones inside VCS metadata
	All,
	/// only the directories of the shape that have no sub-directory
	Leaves,
}

impl Marker {
	fn name(self) -> &'static str {
		match self {
			Marker::Off => "off",
			Marker::All => "all",
			Marker::Leaves => "leaves",
		}
	}
	fn parse(v: &Value) -> Option<Marker> {
		match v {
			Value::Bool(false) => Some(Marker::Off),
			Value::Bool(true) => Some(Marker::All),
			Value::String(s) => match s.as_str() {
				"off" => Some(Marker::Off),
				"all" => Some(Marker::All),
				"leaves" => Some(Marker::Leaves),
				_ => None,
			},
			_ => None,
		}
	}
}

impl Group {
	/// does directory `d` (relative to the origin, "" = origin) hold a marker?
	fn marked(&self, d: &str) -> bool {
		match self.marker {
			Marker::Off => false,
			Marker::All => true,
			Marker::Leaves => {
				(d.is_empty() || self.dirs.iter().any(|x| x == d))
					&& !self.dirs.iter().any(|x| Path::new(x).parent().map(|p| p.to_string_lossy().to_string()).as_deref() == Some(d))
			}
		}
	}
}

struct Item {
	group: Group,
	configs: Vec<Config>,
}

fn slots_for(g: &Group, tier: Tier) -> Vec<Slot> {
	let mut v = vec![];
	for d in std::iter::once(&String::new()).chain(g.dirs.iter()) {
		for n in NAMES {
			v.push(Slot::Dir { dir: d.clone(), name: n });
		}
	}
	if g.vcs == Vcs::Git {
		v.push(Slot::GitInfoExclude);
		v.push(Slot::GitConfigExcludes);
	}
	v.push(Slot::Explicit);
	v.push(Slot::Bzr);
	if tier == Tier::Thorough {
		v.push(Slot::Darcs);
		v.push(Slot::Fossil);
	}
	v
}

fn watches_for(g: &Group) -> Vec<Option<String>> {
	let mut v = vec![None];
	for d in &g.dirs {
		v.push(Some(d.clone()));
	}
	v.push(Some("f.txt".into()));
	for d in &g.dirs {
		v.push(Some(format!("{d}/f.txt")));
	}
	v
}

fn configs(g: &Group, tier: Tier) -> Vec<Config> {
	let slots = slots_for(g, tier);
	let watches = watches_for(g);
	let thorough = tier == Tier::Thorough;
	let is_file_watch = |w: &Option<String>| w.as_ref().map_or(false, |w| w.ends_with("f.txt"));
	let mut out = vec![];
	// no placed file: every watch (none, each directory, a file in each directory).
	// one placed file: every slot x every content x {no watch, each directory watch}
	//   (quick: marker mode all, and marker mode off without a watch; thorough: all marker
	//   modes, with a VCS option only without a watch)
	for w in &watches {
		out.push(Config { files: vec![], watch: w.clone() });
		let singles_here = if thorough {
			!is_file_watch(w) && (g.vcs == Vcs::None || w.is_none())
		} else {
			match g.marker {
				Marker::Off => w.is_none(),
				Marker::All => !is_file_watch(w),
				Marker::Leaves => false,
			}
		};
		if !singles_here {
			continue;
		}
		for s in &slots {
			for c in CONTENTS {
				// an unloadable file only in a per-directory slot (an unloadable origin-level
				// or explicit file makes the whole discovery give up early, which the property
				// does not speak about)
				if c == BROKEN && !matches!(s, Slot::Dir { .. }) {
					continue;
				}
				out.push(Config { files: vec![(s.clone(), c.to_string())], watch: w.clone() });
			}
		}
	}
	// two placed files, no watch.
	//   full    = every pair of slots x all 8x8 contents
	//   reduced = directory slots in the kind combinations (.gitignore,.gitignore),
	//             (.ignore,.hgignore), (.hgignore,.ignore) across directories and all three
	//             mixed pairs inside one directory; origin-level/explicit slots pair with
	//             .gitignore slots only; 5x5 contents
	//   quick:    reduced, no VCS option, marker mode leaves
	//   thorough: full on the 19 quick shapes (no VCS: all marker modes; git: all/leaves),
	//             reduced on the larger shapes (no VCS, marker modes all/leaves)
	let full = thorough && g.small && ((g.vcs == Vcs::None) || (g.vcs == Vcs::Git && g.marker != Marker::Off));
	let reduced = !full && g.vcs == Vcs::None && if thorough { g.marker != Marker::Off && !g.small } else { g.marker == Marker::Leaves };
	if !full && !reduced {
		return out;
	}
	let contents: &[&str] = if full { &CONTENTS } else { &CONTENTS_PAIR };
	for (i, s1) in slots.iter().enumerate() {
		for s2 in &slots[i + 1..] {
			if reduced {
				let ok = match (s1, s2) {
					(Slot::Dir { dir: d1, name: n1 }, Slot::Dir { dir: d2, name: n2 }) => {
						d1 == d2 || matches!((*n1, *n2), (".gitignore", ".gitignore") | (".ignore", ".hgignore") | (".hgignore", ".ignore"))
					}
					(Slot::Dir { name, .. }, _) | (_, Slot::Dir { name, .. }) => *name == ".gitignore",
					_ => false,
				};
				if !ok {
					continue;
				}
			}
			for c1 in contents {
				for c2 in contents {
					if (*c1 == BROKEN && !matches!(s1, Slot::Dir { .. })) || (*c2 == BROKEN && !matches!(s2, Slot::Dir { .. })) {
						continue;
					}
					out.push(Config { files: vec![(s1.clone(), c1.to_string()), (s2.clone(), c2.to_string())], watch: None });
				}
			}
			// two placed files *and* an explicit directory watch: one file ignores a directory (or
			// everything), the other re-includes the directory — whether a directory on the way to
			// the watch is entered must be decided with the complete set of files applying to it
			for (c1, c2) in [("a/\n", "!a/\n"), ("!a/\n", "a/\n"), ("*\n", "!a/\n"), ("!a/\n", "*\n")] {
				for w in watches.iter().filter(|w| w.is_some() && !is_file_watch(w)) {
					out.push(Config { files: vec![(s1.clone(), c1.to_string()), (s2.clone(), c2.to_string())], watch: w.clone() });
				}
			}
		}
	}
	out
}

fn items(tier: Tier) -> Vec<Item> {
	let vcss: &[Vcs] = if tier == Tier::Thorough { &[Vcs::None, Vcs::Git, Vcs::Hg] } else { &[Vcs::None, Vcs::Git] };
	let mut out = vec![];
	let small = shapes(Tier::Quick);
	for shape in shapes(tier) {
		let mut dirs = vec![];
		preorder(&shape, "", &mut dirs);
		for vcs in vcss {
			for marker in [Marker::Off, Marker::All, Marker::Leaves] {
				let g = Group { dirs: dirs.clone(), shape: shape.clone(), vcs: *vcs, marker, small: small.contains(&shape) };
				let cfgs = configs(&g, tier);
				for chunk in cfgs.chunks(if tier == Tier::Thorough { 400 } else { 120 }) {
					out.push(Item { group: g.clone(), configs: chunk.to_vec() });
				}
			}
		}
	}
	out
}

// ----------------------------------------------------------------------------- model

/// abstract description of what is on disk below (and next to) the origin
struct Disk {
	/// directories relative to the origin ("" = origin)
	dirs: BTreeSet<String>,
	/// ignore-ish files relative to the origin -> content
	files: BTreeMap<String, String>,
	explicit: Option<String>,
	excludes: Option<String>,
}

fn disk_for(g: &Group, cfg: &Config) -> Disk {
	let mut dirs: BTreeSet<String> = BTreeSet::new();
	dirs.insert(String::new());
	dirs.extend(g.dirs.iter().cloned());
	dirs.extend(g.vcs.dirs().iter().map(|s| s.to_string()));
	let mut files = BTreeMap::new();
	for d in g.vcs.decoys() {
		files.insert(d.to_string(), "decoy\n".to_string());
	}
	{
		for d in dirs.iter().filter(|d| g.marked(d)) {
			files.insert(if d.is_empty() { ".ignore".into() } else { format!("{d}/.ignore") }, MARKER.to_string());
		}
	}
	let mut explicit = None;
	let mut excludes = None;
	for (s, c) in &cfg.files {
		match s {
			Slot::Explicit => explicit = Some(c.clone()),
			Slot::GitConfigExcludes => excludes = Some(c.clone()),
			_ => {
				let rel = s.rel().unwrap();
				let mut p = Path::new(&rel).parent();
				while let Some(x) = p {
					dirs.insert(x.to_string_lossy().to_string());
					p = x.parent();
				}
				files.insert(rel, c.clone());
			}
		}
	}
	Disk { dirs, files, explicit, excludes }
}

type Entry = (String, Option<String>, Option<ProjectType>);

struct Expected {
	/// (path relative to base, applies_in relative to base, applies_to)
	set: BTreeSet<EntryKey>,
	/// directory (relative to origin) -> why it was not entered
	pruned: BTreeMap<String, String>,
	skipped_empty: Vec<String>,
	origin_ignored: bool,
}

#[derive(Clone, Debug, PartialEq, Eq, PartialOrd, Ord, Hash)]
struct EntryKey {
	path: String,
	applies_in: Option<String>,
	applies_to: String,
}

fn ekey(e: &Entry) -> EntryKey {
	EntryKey { path: e.0.clone(), applies_in: e.1.clone(), applies_to: format!("{:?}", e.2) }
}

fn mlines(content: &str) -> Vec<String> {
	if content == BROKEN {
		return vec![];
	}
	content.lines().map(str::to_string).collect()
}

/// The reference walk. `rank` gives the position of a path (relative to origin, or the
/// absolute path for outside files) in the implementation's result, used only to order
/// files applying in the same directory.
fn expected(origin: &Path, disk: &Disk, cfg: &Config, explicit_path: &Path, excludes_path: &Path, rank: &dyn Fn(&str) -> usize) -> Expected {
	let abs = |rel: &str| if rel.is_empty() { origin.to_path_buf() } else { origin.join(rel) };
	let mut exp = Expected { set: BTreeSet::new(), pruned: BTreeMap::new(), skipped_empty: vec![], origin_ignored: false };
	// (rank, model file) for everything found so far
	let mut acc: Vec<(usize, MFile)> = vec![];
	if let Some(c) = &disk.explicit {
		acc.push((rank(&explicit_path.to_string_lossy()), MFile { applies_in: Some(origin.to_path_buf()), lines: mlines(c) }));
	}
	if let Some(c) = &disk.excludes {
		if !c.is_empty() {
			exp.set.insert(ekey(&(excludes_path.to_string_lossy().to_string(), None, Some(ProjectType::Git))));
			acc.push((rank(&excludes_path.to_string_lossy()), MFile { applies_in: None, lines: mlines(c) }));
		} else {
			exp.skipped_empty.push("core.excludesFile".into());
		}
	}
	for (rel, tag) in [
		(".bzrignore", ProjectType::Bazaar),
		("_darcs/prefs/boring", ProjectType::Darcs),
		(".fossil-settings/ignore-glob", ProjectType::Fossil),
		(".git/info/exclude", ProjectType::Git),
	] {
		if let Some(c) = disk.files.get(rel) {
			if c.is_empty() {
				exp.skipped_empty.push(rel.to_string());
			} else {
				exp.set.insert(ekey(&(abs(rel).to_string_lossy().to_string(), Some(origin.to_string_lossy().to_string()), Some(tag))));
				acc.push((rank(rel), MFile { applies_in: Some(origin.to_path_buf()), lines: mlines(c) }));
			}
		}
	}
	let compose_of = |acc: &Vec<(usize, MFile)>| {
		let mut v = acc.clone();
		v.sort_by_key(|(r, _)| *r);
		Compose::new(origin, &v.into_iter().map(|(_, f)| f).collect::<Vec<_>>())
	};
	// unspecified: an origin-level file that matches the origin itself
	if let Ok(c) = compose_of(&acc) {
		if c.decide(origin, true, true).ignored {
			exp.origin_ignored = true;
		}
	}
	let mut stack = vec![String::new()];
	while let Some(d) = stack.pop() {
		for n in NAMES {
			let rel = if d.is_empty() { n.to_string() } else { format!("{d}/{n}") };
			// a directory of that name is not a file
			if disk.dirs.contains(&rel) {
				continue;
			}
			if let Some(c) = disk.files.get(&rel) {
				if c.is_empty() {
					exp.skipped_empty.push(rel.clone());
				} else {
					exp.set.insert(ekey(&(abs(&rel).to_string_lossy().to_string(), Some(abs(&d).to_string_lossy().to_string()), tag_for(n))));
					acc.push((rank(&rel), MFile { applies_in: Some(abs(&d)), lines: mlines(c) }));
				}
			}
		}
		let kids: Vec<&String> = disk.dirs.iter().filter(|k| !k.is_empty() && Path::new(k.as_str()).parent().map(|p| p.to_string_lossy().to_string()) == Some(d.clone())).collect();
		if kids.is_empty() {
			continue;
		}
		// only the files applying in `d` or above it (and the global ones) can bear on d's children
		let here = abs(&d);
		let relevant: Vec<(usize, MFile)> = acc.iter().filter(|(_, f)| f.applies_in.as_ref().map_or(true, |a| here.starts_with(a))).cloned().collect();
		let compose = compose_of(&relevant).expect("model patterns compile");
		for k in kids {
			if d.is_empty() && VCS_DIRS.contains(&k.as_str()) {
				exp.pruned.insert(k.clone(), "vcs-metadata".into());
				continue;
			}
			if let Some(w) = &cfg.watch {
				let (pk, pw) = (Path::new(k.as_str()), Path::new(w.as_str()));
				if !(pk.starts_with(pw) || pw.starts_with(pk)) {
					exp.pruned.insert(k.clone(), "unrelated-to-explicit-watch".into());
					continue;
				}
			}
			let dec = compose.decide(&abs(k), true, false);
			if dec.ignored {
				let by = dec.by.map_or("?".to_string(), |(dir, _, pat)| {
					format!("{pat:?} applying in {}", dir.map_or("<global>".to_string(), |x| x.strip_prefix(origin).map_or(x.display().to_string(), |r| format!("o/{}", r.display()))))
				});
				exp.pruned.insert(k.clone(), format!("ignored by {by}"));
				continue;
			}
			stack.push(k.clone());
		}
	}
	exp
}

// ----------------------------------------------------------------------------- real side

struct Ctx {
	base: PathBuf,
	rt: tokio::runtime::Runtime,
}

struct Mat {
	/// one origin per sibling creation order
	origins: Vec<PathBuf>,
	creation: Vec<Vec<String>>,
}

fn write(path: &Path, content: &str) {
	if let Some(p) = path.parent() {
		std::fs::create_dir_all(p).expect("mkdir");
	}
	if content == BROKEN {
		std::fs::write(path, [0xffu8, 0xfe, b'a', b'/', b'\n']).expect("write");
	} else {
		std::fs::write(path, content).expect("write");
	}
}

impl Ctx {
	fn new(base: &Path) -> Self {
		std::fs::create_dir_all(base).expect("base");
		let base = std::fs::canonicalize(base).expect("canonical");
		std::fs::create_dir_all(base.join("x")).expect("x");
		Ctx { base, rt: tokio::runtime::Builder::new_current_thread().enable_all().build().expect("runtime") }
	}

	fn materialise(&self, g: &Group) -> Mat {
		let mut origins = vec![];
		let mut creation = vec![];
		for (j, ord) in orderings(&g.shape).iter().enumerate() {
			let root = self.base.join(format!("ord{j}"));
			let _ = std::fs::remove_dir_all(&root);
			let origin = root.join("o");
			std::fs::create_dir_all(&origin).expect("origin");
			let mut dirs = vec![];
			preorder(ord, "", &mut dirs);
			let mut all: Vec<String> = g.vcs.dirs().iter().map(|s| s.to_string()).collect();
			all.extend(dirs.iter().cloned());
			for d in &all {
				std::fs::create_dir(origin.join(d)).expect("mkdir");
			}
			for d in std::iter::once(&String::new()).chain(all.iter()) {
				let dir = if d.is_empty() { origin.clone() } else { origin.join(d) };
				if !VCS_DIRS.iter().any(|v| d.split('/').next() == Some(*v)) {
					write(&dir.join("f.txt"), "data\n");
				}
				if g.marked(d) {
					write(&dir.join(".ignore"), MARKER);
				}
			}
			for d in g.vcs.decoys() {
				write(&origin.join(d), "decoy\n");
			}
			origins.push(origin);
			creation.push(dirs);
		}
		Mat { origins, creation }
	}
}

/// order in which the directory lists its sub-directories right now
fn listing(dir: &Path) -> Vec<String> {
	std::fs::read_dir(dir)
		.map(|rd| rd.filter_map(Result::ok).filter(|e| e.file_type().map_or(false, |t| t.is_dir())).map(|e| e.file_name().to_string_lossy().to_string()).filter(|n| !n.starts_with('.') && !n.starts_with('_')).collect())
		.unwrap_or_default()
}

struct Placed {
	created_files: Vec<PathBuf>,
	restore: Vec<(PathBuf, String)>,
	created_dirs: Vec<PathBuf>,
}

fn place(origin: &Path, g: &Group, cfg: &Config, explicit_path: &Path, excludes_path: &Path) -> Placed {
	let mut pl = Placed { created_files: vec![], restore: vec![], created_dirs: vec![] };
	for (s, c) in &cfg.files {
		let path = match s {
			Slot::Explicit => explicit_path.to_path_buf(),
			Slot::GitConfigExcludes => {
				let cfgp = origin.join(".git/config");
				write(&cfgp, &format!("[core]\n\texcludesFile = {}\n", excludes_path.display()));
				pl.created_files.push(cfgp);
				excludes_path.to_path_buf()
			}
			_ => origin.join(s.rel().unwrap()),
		};
		// directories created on demand (_darcs/prefs, .fossil-settings)
		let mut p = path.parent();
		let mut missing = vec![];
		while let Some(x) = p {
			if x.exists() {
				break;
			}
			missing.push(x.to_path_buf());
			p = x.parent();
		}
		for m in missing.iter().rev() {
			std::fs::create_dir(m).expect("mkdir on demand");
		}
		pl.created_dirs.extend(missing);
		if matches!(s, Slot::Dir { dir, name: ".ignore" } if g.marked(dir)) {
			pl.restore.push((path.clone(), MARKER.to_string()));
		} else {
			pl.created_files.push(path.clone());
		}
		if c == BROKEN {
			std::fs::write(&path, [0xffu8, 0xfe, b'a', b'/', b'\n']).expect("write placed file");
		} else {
			std::fs::write(&path, c).expect("write placed file");
		}
	}
	pl
}

fn unplace(pl: Placed) {
	for f in pl.created_files {
		let _ = std::fs::remove_file(f);
	}
	for (p, c) in pl.restore {
		let _ = std::fs::write(p, c);
	}
	for d in pl.created_dirs {
		let _ = std::fs::remove_dir(d);
	}
}

struct Viol {
	key: String,
	detail: String,
}

struct Eval {
	calls: u64,
	viols: Vec<Viol>,
	nontrivial: Option<(Vec<EntryKey>, Vec<(String, String)>, Vec<String>)>,
	unspecified: bool,
	sample: Value,
}

fn rel_to(base: &Path, p: &str) -> String {
	Path::new(p).strip_prefix(base).map_or(p.to_string(), |r| r.display().to_string())
}

/// Explicit-alias leg (differential, no model): a discoverable ignore file of a
/// sub-directory is *also* given as an explicit ignore file. What discovery returns must
/// be the same as when an outside copy with identical content is given as the explicit
/// file instead: listing a file explicitly must not make discovery lose or mis-tag it.
/// Evaluated on the first listing order only.
fn alias_check(ctx: &Ctx, g: &Group, mat: &Mat, cfg: &Config, disk: &Disk) -> (usize, Vec<(String, String)>) {
	if disk.explicit.is_some() {
		return (0, vec![]);
	}
	let Some((rel, content)) = disk
		.files
		.iter()
		.find(|(rel, c)| rel.contains('/') && !rel.starts_with(".git/") && !rel.starts_with(".hg/") && NAMES.contains(&Path::new(rel.as_str()).file_name().map_or("", |n| n.to_str().unwrap_or(""))) && !c.is_empty() && c.as_str() != MARKER && c.as_str() != BROKEN)
		.map(|(r, c)| (r.clone(), c.clone()))
	else {
		return (0, vec![]);
	};
	let Some(origin) = mat.origins.first() else { return (0, vec![]) };
	let root = origin.parent().unwrap();
	let excludes_path = ctx.base.join("x/excludes.ignore");
	let copy_path = ctx.base.join("x/explicit.ignore");
	let origin_s = origin.to_string_lossy().to_string();
	let run = |explicit: &Path| -> Option<BTreeSet<EntryKey>> {
		let pl = place(origin, g, cfg, &ctx.base.join("x/unused.ignore"), &excludes_path);
		write(&copy_path, &content);
		let watches: Vec<PathBuf> = cfg.watch.iter().map(|w| origin.join(w)).collect();
		let args = IgnoreFilesFromOriginArgs::new(origin, watches, vec![explicit.to_path_buf()]).expect("well-formed args");
		let res = std::panic::catch_unwind(std::panic::AssertUnwindSafe(|| ctx.rt.block_on(from_origin(args))));
		let _ = std::fs::remove_file(&copy_path);
		unplace(pl);
		let (files, _) = res.ok()?;
		Some(
			files
				.iter()
				// drop the entry that represents the explicit role (tagged with the origin)
				.filter(|f| !(f.path == explicit && f.applies_in.as_ref().map(|p| p.to_string_lossy().to_string()) == Some(origin_s.clone())))
				.map(|f| ekey(&(f.path.to_string_lossy().to_string(), f.applies_in.as_ref().map(|p| p.to_string_lossy().to_string()), f.applies_to)))
				.collect(),
		)
	};
	let alias_path = origin.join(&rel);
	let (Some(with_copy), Some(with_alias)) = (run(&copy_path), run(&alias_path)) else {
		return (2, vec![("C14/explicit-alias/panic".into(), "from_origin panicked".into())]);
	};
	let mut v = vec![];
	for e in with_copy.difference(&with_alias) {
		let what = if e.path == alias_path.to_string_lossy() { "the-aliased-file-itself" } else { "other-file" };
		v.push((
			format!("C14/explicit-alias/lost/{what}"),
			format!("{} (applies_in={:?}) is returned when an outside copy of {rel} is the explicit ignore file, but not when {rel} itself is ; config {}", rel_to(origin, &e.path), e.applies_in.as_ref().map(|p| rel_to(root, p)), cfg.json(g)),
		));
	}
	for e in with_alias.difference(&with_copy) {
		v.push((
			"C14/explicit-alias/extra".to_string(),
			format!("{} (applies_in={:?}) is returned only when {rel} itself is the explicit ignore file ; config {}", rel_to(origin, &e.path), e.applies_in.as_ref().map(|p| rel_to(root, p)), cfg.json(g)),
		));
	}
	(2, v)
}

fn eval_config(ctx: &Ctx, g: &Group, mat: &Mat, cfg: &Config) -> Eval {
	let disk = disk_for(g, cfg);
	let mut ev = Eval { calls: 0, viols: vec![], nontrivial: None, unspecified: false, sample: Value::Null };
	{
		let (calls, v) = alias_check(ctx, g, mat, cfg, &disk);
		ev.calls += calls as u64;
		let mut seen = BTreeSet::new();
		for (k, d) in v {
			if seen.insert(k.clone()) {
				ev.viols.push(Viol { key: k, detail: d });
			}
		}
	}
	// per listing order: violations found there
	let mut per_order: Vec<Vec<(String, String)>> = vec![];
	let mut rel_results: Vec<BTreeSet<EntryKey>> = vec![];
	for (j, origin) in mat.origins.iter().enumerate() {
		let root = origin.parent().unwrap();
		let explicit_path = ctx.base.join("x/explicit.ignore");
		let excludes_path = ctx.base.join("x/excludes.ignore");
		let pl = place(origin, g, cfg, &explicit_path, &excludes_path);
		let watches: Vec<PathBuf> = cfg.watch.iter().map(|w| origin.join(w)).collect();
		let explicit: Vec<PathBuf> = if disk.explicit.is_some() { vec![explicit_path.clone()] } else { vec![] };
		let args = IgnoreFilesFromOriginArgs::new(origin, watches, explicit.clone()).expect("well-formed args");
		let res = std::panic::catch_unwind(std::panic::AssertUnwindSafe(|| ctx.rt.block_on(from_origin(args))));
		unplace(pl);
		ev.calls += 1;
		let mut viols: Vec<(String, String)> = vec![];
		let (files, errors) = match res {
			Ok(r) => r,
			Err(_) => {
				per_order.push(vec![("C14/panic".into(), "from_origin panicked".into())]);
				rel_results.push(BTreeSet::new());
				continue;
			}
		};
		let order: Vec<String> = files.iter().map(|f| f.path.strip_prefix(origin).map_or(f.path.to_string_lossy().to_string(), |r| r.to_string_lossy().to_string())).collect();
		let rank = |p: &str| order.iter().position(|x| x == p).unwrap_or(usize::MAX / 2);
		let exp = expected(origin, &disk, cfg, &explicit_path, &excludes_path, &rank);
		if exp.origin_ignored {
			ev.unspecified = true;
			return ev;
		}
		let got_entries: Vec<EntryKey> = files
			.iter()
			.filter(|f| !explicit.contains(&f.path))
			.map(|f| ekey(&(f.path.to_string_lossy().to_string(), f.applies_in.as_ref().map(|p| p.to_string_lossy().to_string()), f.applies_to)))
			.collect();
		let got: BTreeSet<EntryKey> = got_entries.iter().cloned().collect();
		if got.len() != got_entries.len() {
			viols.push(("C14/duplicate-entry".into(), format!("result lists a file twice: {:?}", got_entries.iter().map(|e| rel_to(root, &e.path)).collect::<Vec<_>>())));
		}
		let broken = cfg.files.iter().filter(|(_, c)| c == BROKEN).count();
		if errors.len() > broken {
			viols.push(("C14/errors-reported".into(), format!("error list not empty: {:?}", errors.iter().map(ToString::to_string).collect::<Vec<_>>())));
		}
		for e in exp.set.difference(&got) {
			let relp = rel_to(origin, &e.path);
			if let Some(other) = got.iter().find(|x| x.path == e.path) {
				let what = if other.applies_in != e.applies_in { "wrong-applies-in" } else { "wrong-applies-to" };
				let name = Path::new(&relp).file_name().map_or(String::new(), |n| n.to_string_lossy().to_string());
				viols.push((
					format!("C14/{what}/{name}"),
					format!("{relp}: tagged applies_in={:?} applies_to={}, expected applies_in={:?} applies_to={}", other.applies_in.as_ref().map(|p| rel_to(root, p)), other.applies_to, e.applies_in.as_ref().map(|p| rel_to(root, p)), e.applies_to),
				));
			} else {
				let base_name = Path::new(&relp).file_name().map_or(String::new(), |n| n.to_string_lossy().to_string());
				let kind = if Path::new(&relp).is_absolute() {
					"core.excludesFile".to_string()
				} else if NAMES.contains(&relp.as_str()) {
					"in-origin".to_string()
				} else if !NAMES.contains(&base_name.as_str()) || relp.starts_with(".git/") {
					format!("origin-level/{relp}")
				} else {
					"in-reachable-subdirectory".to_string()
				};
				viols.push((format!("C14/missed/{kind}"), format!("{relp} is non-empty and its directory is reachable, but it was not returned")));
			}
		}
		for e in got.difference(&exp.set) {
			if exp.set.iter().any(|x| x.path == e.path) {
				continue; // reported above as wrong tag
			}
			let relp = rel_to(origin, &e.path);
			let dir = Path::new(&relp).parent().map_or(String::new(), |p| p.to_string_lossy().to_string());
			// why the model did not return it
			let mut why = None;
			let mut cur: Option<&Path> = Some(Path::new(&dir));
			while let Some(x) = cur {
				let xs = x.to_string_lossy().to_string();
				if let Some(r) = exp.pruned.get(&xs) {
					why = Some((xs.clone(), r.clone()));
				}
				cur = x.parent();
			}
			let is_empty = disk.files.get(&relp).map_or(false, String::is_empty) || (Path::new(&relp).is_absolute() && disk.excludes.as_deref() == Some(""));
			let (key, detail) = if is_empty {
				("C14/returned-empty-file".to_string(), format!("{relp} is empty but was returned"))
			} else if let Some((pd, r)) = why {
				let class = if r.starts_with("ignored by") { "ignored-directory" } else { r.as_str() };
				(format!("C14/returned-from-pruned-subtree/{class}"), format!("{relp} returned, but directory {pd:?} must not be entered: {r}"))
			} else {
				("C14/returned-unexpected-file".to_string(), format!("{relp} returned (applies_in={:?}) but is not an applicable ignore file", e.applies_in))
			};
			viols.push((key, detail));
		}
		if j == 0 {
			let pruned: Vec<(String, String)> = exp.pruned.iter().map(|(k, v)| (k.clone(), v.clone())).collect();
			if !pruned.is_empty() || !exp.skipped_empty.is_empty() {
				ev.nontrivial = Some((exp.set.iter().map(|e| EntryKey { path: rel_to(&ctx.base, &rel_to(root, &e.path)), applies_in: e.applies_in.as_ref().map(|p| rel_to(root, p)), applies_to: e.applies_to.clone() }).collect(), pruned.clone(), exp.skipped_empty.clone()));
			}
			ev.sample = json!({
				"config": cfg.json(g),
				"returned": got_entries.iter().map(|e| rel_to(origin, &e.path)).collect::<Vec<_>>(),
				"pruned_by_model": pruned,
				"empty_skipped": exp.skipped_empty,
			});
		}
		rel_results.push(got.iter().map(|e| EntryKey { path: rel_to(root, &e.path), applies_in: e.applies_in.as_ref().map(|p| rel_to(root, p)), applies_to: e.applies_to.clone() }).collect());
		per_order.push(viols);
	}
	let n_orders = per_order.len();
	let failing = per_order.iter().filter(|v| !v.is_empty()).count();
	let order_dependent = rel_results.windows(2).any(|w| w[0] != w[1]);
	let mut seen = BTreeSet::new();
	for (j, viols) in per_order.into_iter().enumerate() {
		for (k, d) in viols {
			let key = if order_dependent && failing < n_orders { format!("C14/listing-order-dependent/{}", k.trim_start_matches("C14/")) } else { k };
			if seen.insert(key.clone()) {
				ev.viols.push(Viol { key, detail: format!("{d} ; sibling creation order {:?} ; config {}", mat.creation[j], cfg.json(g)) });
			}
		}
	}
	if order_dependent && failing == n_orders {
		ev.viols.push(Viol { key: "C14/listing-order-dependent/result-differs".into(), detail: format!("result differs between sibling creation orders {:?} ; config {}", mat.creation, cfg.json(g)) });
	}
	ev
}

// ----------------------------------------------------------------------------- entry points

fn parse_case(input: &Value) -> Option<(Group, Config)> {
	let dirs: Vec<String> = input["dirs"].as_array()?.iter().filter_map(|d| d.as_str().map(str::to_string)).collect();
	let shape = node_from_dirs(&dirs);
	let g = Group { dirs, shape, vcs: Vcs::parse(input["vcs"].as_str()?), marker: Marker::parse(&input["marker"])?, small: true };
	let mut files = vec![];
	for f in input["files"].as_array()? {
		files.push((Slot::parse(f["slot"].as_str()?)?, f["content"].as_str()?.to_string()));
	}
	Some((g, Config { files, watch: input["watch"].as_str().map(str::to_string) }))
}

pub fn replay(input: &Value) -> Vec<(String, String)> {
	let Some((g, cfg)) = parse_case(input) else { return vec![("C14/replay/bad-input".into(), "cannot parse case".into())] };
	let scratch = Scratch::new("c14-replay");
	let ctx = Ctx::new(&scratch.path().join("t0"));
	let mat = ctx.materialise(&g);
	let ev = eval_config(&ctx, &g, &mat, &cfg);
	ev.viols.into_iter().map(|v| (v.key, v.detail)).collect()
}

pub fn run(tier: Tier, seed: u64) -> EnumOut {
	let rule = "configuration = (shape, sibling creation order, vcs option, marker mode, placed files, explicit watch); evaluation = one from_origin call; non-trivial = distinct (expected result, pruned directories with reason, empty files skipped) outcomes of the reference walk in which at least one directory is pruned or one empty file skipped (the all-defaults outcome returns every ignore file of the tree)";
	let scratch = Scratch::new("c14");
	let mut its = items(tier);
	// spread the groups over the workers (par_map hands out contiguous chunks)
	let n = its.len();
	let threads = 16usize;
	let per = n.div_ceil(threads).max(1);
	let mut order: Vec<usize> = (0..n).collect();
	if seed != 0 {
		let mut s = seed ^ 0x9e37_79b9_7f4a_7c15;
		for i in (1..n).rev() {
			s = s.wrapping_mul(6364136223846793005).wrapping_add(1442695040888963407);
			order.swap(i, ((s >> 33) as usize) % (i + 1));
		}
	}
	let mut slots: Vec<Option<Item>> = its.drain(..).map(Some).collect();
	let mut arranged: Vec<Item> = Vec::with_capacity(n);
	for t in 0..threads {
		for k in 0..per {
			let idx = k * threads + t;
			if idx < n {
				if let Some(it) = slots[order[idx]].take() {
					arranged.push(it);
				}
			}
		}
	}
	let root = scratch.path().to_path_buf();
	let t0 = std::time::Instant::now();
	let wall_cap = std::time::Duration::from_secs(if tier == Tier::Thorough { 510 } else { 120 });
	let mut out = par_map(&arranged, threads, |chunk, idx| {
		let mut o = EnumOut::new(rule);
		let ctx = Ctx::new(&root.join(format!("t{idx}")));
		let mut unspecified = 0u64;
		let mut orderings_total = 0u64;
		let mut orderings_distinct = 0u64;
		let mut not_run = 0u64;
		for (ii, item) in chunk.iter().enumerate() {
			if t0.elapsed() > wall_cap {
				not_run += item.configs.len() as u64;
				continue;
			}
			let mat = ctx.materialise(&item.group);
			// did the creation orders really produce different listings?
			let mut lists = BTreeSet::new();
			for (origin, cre) in mat.origins.iter().zip(&mat.creation) {
				let mut sig = vec![listing(origin)];
				for d in cre {
					sig.push(listing(&origin.join(d)));
				}
				lists.insert(sig);
			}
			orderings_total += mat.origins.len() as u64;
			orderings_distinct += lists.len() as u64;
			let stride = (item.configs.len() / 2).max(1);
			for (ci, cfg) in item.configs.iter().enumerate() {
				let ev = eval_config(&ctx, &item.group, &mat, cfg);
				if ev.unspecified {
					unspecified += 1;
					continue;
				}
				o.states += ev.calls;
				o.evaluations += ev.calls;
				if let Some(nt) = &ev.nontrivial {
					o.nontrivial_mark(nt);
				}
				if idx < 6 && ii % 7 == 3 && ci % stride == 1 && ev.nontrivial.is_some() {
					o.sample(ev.sample.clone());
				}
				for v in ev.viols {
					o.violate(v.key, v.detail, cfg.json(&item.group));
				}
			}
		}
		o.extra.insert("configs_unspecified_skipped".into(), json!(unspecified));
		o.extra.insert("configs_not_run_wall_cap".into(), json!(not_run));
		o.extra.insert("materialised_orderings".into(), json!(orderings_total));
		o.extra.insert("materialised_orderings_with_distinct_listing".into(), json!(orderings_distinct));
		o
	});
	out.rule = rule.to_string();
	let nr = out.extra.get("configs_not_run_wall_cap").and_then(Value::as_u64).unwrap_or(0);
	if nr > 0 {
		out.caps.push(format!("wall-clock guard ({} s) reached: {nr} configurations were not run", wall_cap.as_secs()));
	}
	let tot = out.extra.get("materialised_orderings").and_then(Value::as_u64).unwrap_or(0);
	let dis = out.extra.get("materialised_orderings_with_distinct_listing").and_then(Value::as_u64).unwrap_or(0);
	if dis < tot {
		out.caps.push(format!("only {dis} of {tot} sibling creation orders produced a distinct directory listing on this filesystem: listing-order coverage is incomplete"));
	}
	out.extra.insert("shapes".into(), json!(shapes(tier).len()));
	out.assumptions = vec![
		"trusted base: the ignore crate's single-file Gitignore; IgnoreCompose (c03::model) for directory verdicts".into(),
		"tmpfs lists directory entries in an order determined by creation order (verified at run time)".into(),
		"explicit ignore files are not compared (the statement does not say whether they are returned); they do prune".into(),
		"mutual precedence of several files applying in one directory is taken from the order of the returned list".into(),
		"VCS metadata directories are placed at the origin level only".into(),
	];
	out
}
