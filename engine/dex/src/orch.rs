//! Orchestration shared by all checks: worker subprocesses, wall caps, merging,
//! known-findings handling, evidence and replay files, exit codes.
//!
//! Exit codes: 0 = held on everything explored (or only open known findings),
//! 1 = violation (a `VIOLATION property=<id> replay=<path>` line was printed),
//! 2 = machinery error (never a verdict).

use std::{
	collections::{BTreeMap, HashSet},
	io::Write,
	path::{Path, PathBuf},
	process::{Command, Stdio},
	time::{Duration, Instant},
};

use serde::{de::DeserializeOwned, Deserialize, Serialize};
use serde_json::{json, Value};

use crate::explore::{self, Bounds, DfsCfg, Exec, Point, Stats, Stop, Visit};

/// Root of the verification tree: `/verif`, or `$VERIF_ROOT` for an isolated copy (used
/// by `tools/seed_matrix.py`, which must not disturb the real evidence files).
pub fn verif_root() -> PathBuf {
	PathBuf::from(std::env::var("VERIF_ROOT").unwrap_or_else(|_| "/verif".to_string()))
}

#[derive(Clone, Copy, PartialEq, Eq, Debug, Serialize, Deserialize)]
pub enum Tier {
	Quick,
	Thorough,
}

impl Tier {
	pub fn name(self) -> &'static str {
		match self {
			Tier::Quick => "quick",
			Tier::Thorough => "thorough",
		}
	}
}

/// What a single execution reports.
#[derive(Default, Clone, Debug)]
pub struct Obs {
	/// complete observation log (time-stamped, canonical)
	pub log: Vec<String>,
	/// (key, detail) for each violated clause
	pub violations: Vec<(String, String)>,
	/// the harness' own notion of "something interesting happened"
	pub nontrivial: bool,
	/// named counters summed into the evidence
	pub counters: Vec<(&'static str, u64)>,
}

#[derive(Clone, Debug, Serialize, Deserialize)]
pub struct ViolationRec {
	pub property: String,
	pub key: String,
	pub detail: String,
	pub harness: String,
	pub scenario: Value,
	pub bounds: Option<Bounds>,
	pub choices: Vec<Point>,
	pub log: Vec<String>,
	pub count: u64,
}

#[derive(Clone, Debug, Default, Serialize, Deserialize)]
pub struct PassReport {
	pub label: String,
	pub scenarios: u64,
	pub scenarios_complete: u64,
	pub executions: u64,
}

#[derive(Clone, Debug, Default, Serialize, Deserialize)]
pub struct WorkerResult {
	pub stats: Stats,
	pub distinct_logs: u64,
	pub distinct_nontrivial: u64,
	pub passes: Vec<PassReport>,
	pub violations: BTreeMap<String, ViolationRec>,
	pub samples: Vec<Value>,
	pub counters: BTreeMap<String, u64>,
	pub machinery: Option<String>,
	pub capped: bool,
	pub wall_s: f64,
}

/// A harness = a family of scenarios, the bound passes applied to each, and a way to
/// run one execution of a scenario.
pub trait Harness {
	type Sc: Serialize + DeserializeOwned + Clone;
	fn name(&self) -> &'static str;
	fn property(&self) -> &str;
	/// deterministic list of scenarios with, for each, the passes to run
	fn scenarios(&self, tier: Tier) -> Vec<(Self::Sc, Vec<Bounds>)>;
	fn run(&self, sc: &Self::Sc, bounds: Bounds, prefix: &[Point]) -> Result<Exec<Obs>, String>;
	fn replay_every(&self, tier: Tier) -> u64 {
		match tier {
			Tier::Quick => 64,
			Tier::Thorough => 1024,
		}
	}
	/// An execution that does not come back (the subject spins inside one poll, which no
	/// scheduler can preempt) is a violation of a liveness-type property; for a pure
	/// safety property it is only a run without verdict.
	fn hang_is_violation(&self) -> bool {
		true
	}
}

/// A worker stops exploring (reported as a cap) when its resident set exceeds this.
pub const RSS_CAP_BYTES: u64 = 2_500_000_000;

fn rss_bytes() -> u64 {
	std::fs::read_to_string("/proc/self/statm")
		.ok()
		.and_then(|s| s.split_whitespace().nth(1).and_then(|p| p.parse::<u64>().ok()))
		.map_or(0, |pages| pages * 4096)
}

/// Wall-clock limit for ONE execution (normally 10 us - 1 ms).
pub const HANG_LIMIT_S: u64 = 20;

struct Watch {
	started: Instant,
	scenario: Value,
	bounds: Option<Bounds>,
	prefix: Vec<Point>,
	armed: bool,
}

fn spawn_watchdog(state: std::sync::Arc<std::sync::Mutex<Watch>>, property: String, harness: String, out: Option<PathBuf>, is_violation: bool) {
	std::thread::spawn(move || loop {
		std::thread::sleep(Duration::from_millis(500));
		let w = state.lock().unwrap();
		if w.armed && w.started.elapsed() > Duration::from_secs(HANG_LIMIT_S) {
			let rec = ViolationRec {
				property: property.clone(),
				key: format!("{property}/execution-never-returns"),
				detail: format!(
					"one execution did not come back within {HANG_LIMIT_S} s of wall time: the subject loops without yielding (a schedule-independent livelock inside a single poll)"
				),
				harness: harness.clone(),
				scenario: w.scenario.clone(),
				bounds: w.bounds,
				choices: w.prefix.clone(),
				log: vec![],
				count: 1,
			};
			match &out {
				Some(p) => {
					let hang = PathBuf::from(format!("{}.hang.json", p.display()));
					let _ = std::fs::write(&hang, serde_json::json!({"violation": is_violation, "rec": rec}).to_string());
				}
				None => {
					// replay mode
					println!("scenario: {}", rec.scenario);
					println!("violated: {}: {}", rec.key, rec.detail);
					println!("VIOLATION property={property} replay=<this file>");
				}
			}
			std::process::exit(if out.is_some() { 3 } else { 1 });
		}
	});
}

pub struct Args {
	pub tier: Tier,
	pub worker: Option<(usize, usize)>,
	pub out: Option<PathBuf>,
	pub budget_s: f64,
	pub workers: usize,
	pub replay: Option<PathBuf>,
	pub seed: u64,
	pub rest: Vec<String>,
}

pub fn parse_args(argv: &[String]) -> Args {
	let mut a = Args {
		tier: match std::env::var("VERIF_TIER").as_deref() {
			Ok("thorough") => Tier::Thorough,
			_ => Tier::Quick,
		},
		worker: None,
		out: None,
		budget_s: 0.0,
		workers: std::env::var("VERIF_WORKERS").ok().and_then(|s| s.parse().ok()).unwrap_or(16),
		replay: None,
		seed: std::env::var("VERIF_SEED").ok().and_then(|s| s.parse().ok()).unwrap_or(0),
		rest: vec![],
	};
	let mut it = argv.iter();
	while let Some(x) = it.next() {
		match x.as_str() {
			"--tier" => {
				a.tier = match it.next().map(String::as_str) {
					Some("thorough") => Tier::Thorough,
					_ => Tier::Quick,
				}
			}
			"--worker" => {
				let s = it.next().expect("--worker i/n");
				let (i, n) = s.split_once('/').expect("--worker i/n");
				a.worker = Some((i.parse().unwrap(), n.parse().unwrap()));
			}
			"--out" => a.out = it.next().map(PathBuf::from),
			"--budget" => a.budget_s = it.next().and_then(|s| s.parse().ok()).unwrap_or(0.0),
			"--workers" => a.workers = it.next().and_then(|s| s.parse().ok()).unwrap_or(16),
			"--replay" => a.replay = it.next().map(PathBuf::from),
			other => a.rest.push(other.to_string()),
		}
	}
	if a.budget_s == 0.0 {
		a.budget_s = std::env::var("VERIF_BUDGET_S")
			.ok()
			.and_then(|s| s.parse().ok())
			.unwrap_or(match a.tier {
				Tier::Quick => 40.0,
				Tier::Thorough => 600.0,
			});
	}
	a
}

fn shuffle_order(n: usize, seed: u64) -> Vec<usize> {
	// deterministic permutation of work order; seed 0 = identity
	let mut v: Vec<usize> = (0..n).collect();
	if seed != 0 {
		let mut s = seed.wrapping_mul(0x9E37_79B9_7F4A_7C15) | 1;
		for i in (1..n).rev() {
			s ^= s << 13;
			s ^= s >> 7;
			s ^= s << 17;
			v.swap(i, (s % (i as u64 + 1)) as usize);
		}
	}
	v
}

/// The body of a worker process: explore this worker's share of the scenarios.
pub fn worker_main<H: Harness>(h: &H, args: &Args) -> WorkerResult {
	let t0 = Instant::now();
	let deadline = t0 + Duration::from_secs_f64(args.budget_s);
	let (wi, wn) = args.worker.unwrap_or((0, 1));
	let scs = h.scenarios(args.tier);
	let order = shuffle_order(scs.len(), args.seed);
	let mine: Vec<usize> = order.into_iter().enumerate().filter(|(pos, _)| pos % wn == wi).map(|(_, i)| i).collect();
	let mut res = WorkerResult::default();
	let watch = std::sync::Arc::new(std::sync::Mutex::new(Watch { started: Instant::now(), scenario: Value::Null, bounds: None, prefix: vec![], armed: false }));
	spawn_watchdog(watch.clone(), h.property().to_string(), h.name().to_string(), args.out.clone(), h.hang_is_violation());
	let mut seen: HashSet<u64> = HashSet::new();
	let mut seen_nt: HashSet<u64> = HashSet::new();
	// passes are the outer loop so that "level completed" is meaningful across scenarios
	let mut labels: Vec<String> = vec![];
	for i in &mine {
		for b in &scs[*i].1 {
			let l = b.label();
			if !labels.contains(&l) {
				labels.push(l);
			}
		}
	}
	let sample_stride = (mine.len() / 3).max(1);
	let mut visited: u64 = 0;
	'passes: for label in &labels {
		let mut pr = PassReport { label: label.clone(), ..Default::default() };
		for (pos, i) in mine.iter().enumerate() {
			let (sc, passes) = &scs[*i];
			let Some(bounds) = passes.iter().find(|b| &b.label() == label) else { continue };
			pr.scenarios += 1;
			if Instant::now() >= deadline {
				res.capped = true;
				continue;
			}
			let cfg = DfsCfg {
				bounds: *bounds,
				deadline: Some(deadline),
				max_execs: None,
				replay_every: h.replay_every(args.tier),
			};
			let mut st = Stats::default();
			let sc_json = serde_json::to_value(sc).unwrap_or(Value::Null);
			if std::env::var("VERIF_TRACE").is_ok() {
				eprintln!("[w{wi}] {label} {sc_json}");
			}
			let sc_hash = explore::hash_strs([&sc_json.to_string(), label]);
			let mut run_err: Option<String> = None;
			let mut first_log: Option<Vec<String>> = None;
			let mut rss_capped = false;
			let stop = explore::dfs(
				&cfg,
				&mut st,
				|prefix| {
					if std::env::var("VERIF_TRACE").as_deref() == Ok("2") {
						eprintln!("  prefix {}", serde_json::to_string(prefix).unwrap_or_default());
					}
					{
						let mut w = watch.lock().unwrap();
						w.started = Instant::now();
						w.scenario = sc_json.clone();
						w.bounds = Some(*bounds);
						w.prefix = prefix.to_vec();
						w.armed = true;
					}
					let r = h.run(sc, *bounds, prefix);
					watch.lock().unwrap().armed = false;
					match r {
					Ok(e) => e,
					Err(m) => {
						run_err.get_or_insert(m);
						Exec { points: prefix.to_vec(), divergence: None, out: Obs::default() }
					}
				}},
				|o| explore::hash_strs(o.log.iter()),
				|ex, _plen| {
					visited += 1;
					if visited % 8192 == 0 && rss_bytes() > RSS_CAP_BYTES {
						rss_capped = true;
						return Visit::Halt;
					}
					let fp = explore::hash_strs(ex.out.log.iter()) ^ sc_hash;
					seen.insert(fp);
					if ex.out.nontrivial {
						seen_nt.insert(fp);
					}
					for (k, v) in &ex.out.counters {
						*res.counters.entry((*k).to_string()).or_default() += *v;
					}
					if first_log.is_none() {
						first_log = Some(ex.out.log.clone());
					}
					if ex.out.violations.is_empty() {
						return Visit::Continue;
					}
					for (key, detail) in &ex.out.violations {
						let e = res.violations.entry(key.clone()).or_insert_with(|| ViolationRec {
							property: h.property().to_string(),
							key: key.clone(),
							detail: detail.clone(),
							harness: h.name().to_string(),
							scenario: sc_json.clone(),
							bounds: Some(*bounds),
							choices: ex.points.clone(),
							log: ex.out.log.clone(),
							count: 0,
						});
						e.count += 1;
					}
					// keep exploring below a violating execution: other keys may hide there,
					// but do not expand it at the deepest levels to bound the cost
					Visit::Continue
				},
			);
			if let Some(m) = run_err {
				res.machinery = Some(format!("scenario {sc_json}: {m}"));
				res.stats.add(&st);
				break 'passes;
			}
			res.stats.add(&st);
			pr.executions += st.executions;
			match stop {
				Stop::Complete => pr.scenarios_complete += 1,
				Stop::Capped => res.capped = true,
				Stop::Halted => {
					if rss_capped {
						res.capped = true;
						res.counters.insert("rss_cap_hit".into(), 1);
						res.passes.push(pr);
						break 'passes;
					}
				}
				Stop::Machinery(m) => {
					res.machinery = Some(format!("scenario {sc_json} [{label}]: {m}"));
					break 'passes;
				}
			}
			if pos % sample_stride == 0 && res.samples.len() < 4 {
				if let Some(l) = first_log {
					res.samples.push(json!({"scenario": sc_json, "bounds": label, "default_schedule_log": l}));
				}
			}
		}
		res.passes.push(pr);
	}
	res.distinct_logs = seen.len() as u64;
	res.distinct_nontrivial = seen_nt.len() as u64;
	res.wall_s = t0.elapsed().as_secs_f64();
	res
}

#[derive(Deserialize, Default)]
struct KnownFile {
	#[serde(default)]
	findings: Vec<KnownFinding>,
}

#[derive(Deserialize, Clone)]
pub struct KnownFinding {
	pub property: String,
	pub key: String,
	pub status: String,
	#[serde(default)]
	pub what: String,
}

pub fn load_known(property: &str) -> Vec<KnownFinding> {
	let p = verif_root().join("known_findings.json");
	let Ok(s) = std::fs::read_to_string(&p) else { return vec![] };
	let k: KnownFile = match serde_json::from_str(&s) {
		Ok(k) => k,
		Err(e) => {
			eprintln!("machinery: known_findings.json unreadable: {e}");
			std::process::exit(2);
		}
	};
	k.findings.into_iter().filter(|f| f.property == property && f.status == "open").collect()
}

/// Everything a finished check hands to `finish`.
pub struct Report {
	pub property: String,
	pub tier: Tier,
	pub seed: u64,
	pub wall_s: f64,
	pub coverage: serde_json::Map<String, Value>,
	pub assumptions: Vec<String>,
	pub violations: Vec<ViolationRec>,
	pub machinery: Option<String>,
}

/// Write evidence, print VIOLATION / KNOWN-FINDING lines, and return the exit code.
pub fn finish(r: Report) -> i32 {
	if let Some(m) = &r.machinery {
		eprintln!("MACHINERY-ERROR property={} {m}", r.property);
		// evidence of a void run is not written: a broken run proves nothing
		return 2;
	}
	let known = load_known(&r.property);
	let mut unlisted = 0;
	let mut listed = 0;
	let rdir = verif_root().join("replays").join(&r.property);
	for v in &r.violations {
		if let Some(k) = known.iter().find(|k| k.key == v.key) {
			println!("KNOWN-FINDING: property={} {} — {} ({} executions)", r.property, v.key, k.what, v.count);
			listed += 1;
		} else {
			std::fs::create_dir_all(&rdir).ok();
			let h = explore::hash_strs([&v.key, &v.scenario.to_string()]);
			let path = rdir.join(format!("{h:016x}.json"));
			if let Ok(mut f) = std::fs::File::create(&path) {
				let _ = f.write_all(serde_json::to_string_pretty(v).unwrap().as_bytes());
			}
			println!("VIOLATION property={} replay={}", r.property, path.display());
			println!("  key: {}\n  detail: {}\n  executions: {}", v.key, v.detail, v.count);
			unlisted += 1;
		}
	}
	let mut cov = r.coverage;
	cov.insert("known_findings_seen".into(), json!(listed));
	let ev = json!({
		"property_id": r.property,
		"tier": r.tier.name(),
		"seed": r.seed,
		"level": "model_checking",
		"coverage": Value::Object(cov),
		"assumptions": r.assumptions,
		"wall_s": r.wall_s,
		"violations": unlisted,
	});
	let edir = verif_root().join("evidence");
	std::fs::create_dir_all(&edir).ok();
	let path = edir.join(format!("{}.json", r.property));
	let tmp = edir.join(format!("{}.json.tmp", r.property));
	std::fs::write(&tmp, serde_json::to_string_pretty(&ev).unwrap()).expect("write evidence");
	std::fs::rename(&tmp, &path).expect("rename evidence");
	println!(
		"{} tier={} violations={} known_findings={} wall={:.1}s evidence={}",
		r.property,
		r.tier.name(),
		unlisted,
		listed,
		r.wall_s,
		path.display()
	);
	if unlisted > 0 {
		1
	} else {
		0
	}
}

/// Orchestrate a DEX check: spawn workers of the current executable, enforce the wall
/// cap with SIGKILL, merge their results.
pub fn orchestrate(harness_name: &str, property: &str, args: &Args, extra_args: &[String]) -> (WorkerResult, Vec<String>) {
	let t0 = Instant::now();
	let exe = std::env::current_exe().expect("current exe");
	let work = verif_root().join("work").join(format!("{property}-{}", std::process::id()));
	std::fs::create_dir_all(&work).expect("work dir");
	let n = args.workers.max(1);
	let mut kids = vec![];
	for i in 0..n {
		let out = work.join(format!("w{i}.json"));
		let mut c = Command::new(&exe);
		c.args(extra_args)
			.arg("--tier")
			.arg(args.tier.name())
			.arg("--worker")
			.arg(format!("{i}/{n}"))
			.arg("--budget")
			.arg(format!("{}", args.budget_s))
			.arg("--out")
			.arg(&out)
			.env("VERIF_SEED", args.seed.to_string())
			.stdin(Stdio::null())
			.stdout(Stdio::null())
			// the subject may chat on stderr (the CLI's handler does); keep it only when tracing
			.stderr(if std::env::var("VERIF_TRACE").is_ok() { Stdio::inherit() } else { Stdio::null() });
		kids.push((c.spawn().expect("spawn worker"), out));
	}
	// workers stop by themselves at the budget; give them a margin, then SIGKILL
	let hard = t0 + Duration::from_secs_f64(args.budget_s * 1.25 + 20.0);
	let mut merged = WorkerResult::default();
	let mut notes = vec![];
	let mut pass_map: BTreeMap<String, PassReport> = BTreeMap::new();
	let mut pass_order: Vec<String> = vec![];
	for (mut child, out) in kids {
		let status = loop {
			match child.try_wait() {
				Ok(Some(s)) => break Some(s),
				Ok(None) => {
					if Instant::now() >= hard {
						let _ = child.kill();
						let _ = child.wait();
						break None;
					}
					std::thread::sleep(Duration::from_millis(20));
				}
				Err(_) => break None,
			}
		};
		let parsed: Option<WorkerResult> =
			std::fs::read_to_string(&out).ok().and_then(|s| serde_json::from_str(&s).ok());
		match (status, parsed) {
			(Some(s), Some(w)) if s.success() => {
				merged.stats.add(&w.stats);
				merged.distinct_logs += w.distinct_logs;
				merged.distinct_nontrivial += w.distinct_nontrivial;
				merged.capped |= w.capped;
				for p in w.passes {
					if !pass_order.contains(&p.label) {
						pass_order.push(p.label.clone());
					}
					let e = pass_map.entry(p.label.clone()).or_insert_with(|| PassReport { label: p.label.clone(), ..Default::default() });
					e.scenarios += p.scenarios;
					e.scenarios_complete += p.scenarios_complete;
					e.executions += p.executions;
				}
				for (k, v) in w.violations {
					match merged.violations.get_mut(&k) {
						Some(e) => e.count += v.count,
						None => {
							merged.violations.insert(k, v);
						}
					}
				}
				for (k, v) in w.counters {
					*merged.counters.entry(k).or_default() += v;
				}
				if merged.samples.len() < 6 {
					merged.samples.extend(w.samples.into_iter().take(2));
				}
				if merged.machinery.is_none() {
					merged.machinery = w.machinery;
				}
			}
			(Some(s), _) if s.code() == Some(3) => {
				// the worker's watchdog fired: an execution never returned
				let hang = PathBuf::from(format!("{}.hang.json", out.display()));
				let parsed: Option<Value> = std::fs::read_to_string(&hang).ok().and_then(|s| serde_json::from_str(&s).ok());
				merged.capped = true;
				match parsed {
					Some(v) => {
						let rec: Option<ViolationRec> = serde_json::from_value(v["rec"].clone()).ok();
						if let (true, Some(rec)) = (v["violation"].as_bool().unwrap_or(false), rec) {
							notes.push(format!("a worker stopped because one execution never returned: {}", rec.scenario));
							merged.violations.entry(rec.key.clone()).or_insert(rec);
						} else {
							merged.machinery.get_or_insert("an execution never returned (the subject loops inside one poll); not a verdict for this property".to_string());
						}
					}
					None => {
						merged.machinery.get_or_insert("worker watchdog fired without a report".to_string());
					}
				}
			}
			(None, _) => {
				merged.capped = true;
				notes.push(format!("worker writing {} exceeded the hard wall cap and was killed", out.display()));
				merged.machinery.get_or_insert(format!("worker exceeded the hard wall cap ({}s) and was killed", (args.budget_s * 1.25 + 20.0) as u64));
			}
			(Some(s), _) => {
				merged.machinery.get_or_insert(format!("worker {} ended with {s} and no readable result", out.display()));
			}
		}
	}
	merged.passes = pass_order.into_iter().filter_map(|l| pass_map.remove(&l)).collect();
	merged.wall_s = t0.elapsed().as_secs_f64();
	let _ = std::fs::remove_dir_all(&work);
	let _ = harness_name;
	(merged, notes)
}

/// Standard `main` for a DEX harness binary: worker mode, replay mode or orchestrator.
pub type Post<'a> = Box<dyn FnOnce(&mut serde_json::Map<String, Value>, &mut Vec<ViolationRec>) + 'a>;

pub fn dex_main<H: Harness>(h: &H, args: &Args, extra_args: &[String], assumptions: Vec<String>, rule: &str) -> i32 {
	dex_main_with(h, args, extra_args, assumptions, rule, None)
}

/// Like `dex_main`; `post` runs in the orchestrator after the exploration and may add
/// coverage entries and violations (e.g. a model-level check, a loom leg).
pub fn dex_main_with<H: Harness>(h: &H, args: &Args, extra_args: &[String], assumptions: Vec<String>, rule: &str, post: Option<Post<'_>>) -> i32 {
	if let Some(path) = &args.replay {
		return replay(h, path);
	}
	if args.worker.is_some() {
		crate::rt::quiet_panics();
		let r = worker_main(h, args);
		let out = args.out.clone().expect("--out");
		std::fs::write(&out, serde_json::to_string(&r).unwrap()).expect("write worker result");
		return 0;
	}
	let t_start = Instant::now();
	let (m, notes) = orchestrate(h.name(), h.property(), args, extra_args);
	let mut cov = serde_json::Map::new();
	let complete: Vec<&PassReport> = m.passes.iter().filter(|p| p.scenarios_complete == p.scenarios).collect();
	let exhaustive = !m.capped && complete.len() == m.passes.len();
	cov.insert("states".into(), json!(m.stats.nodes));
	cov.insert("transitions".into(), json!(m.stats.edges));
	cov.insert("traces_validated_against_impl".into(), json!(m.stats.executions));
	cov.insert("evaluations".into(), json!(m.stats.executions));
	cov.insert("distinct_nontrivial".into(), json!(m.distinct_nontrivial));
	cov.insert("distinct_observation_logs".into(), json!(m.distinct_logs));
	cov.insert("rule".into(), json!(rule));
	cov.insert("samples".into(), json!(m.samples));
	cov.insert("exhaustive".into(), json!(exhaustive));
	cov.insert("max_depth".into(), json!(m.stats.max_depth));
	cov.insert("max_deviations_in_one_execution".into(), json!(m.stats.max_deviations));
	cov.insert("replay_twice_checks".into(), json!(m.stats.replay_checks));
	cov.insert(
		"passes".into(),
		json!(m.passes.iter().map(|p| json!({"bounds": p.label, "scenarios": p.scenarios, "scenarios_fully_explored": p.scenarios_complete, "executions": p.executions})).collect::<Vec<_>>()),
	);
	cov.insert(
		"bounds_completed".into(),
		json!(complete.iter().map(|p| p.label.clone()).collect::<Vec<_>>()),
	);
	cov.insert(
		"caps_hit".into(),
		json!(if m.capped { notes.iter().cloned().chain(std::iter::once(format!("wall budget {}s reached before every pass completed", args.budget_s))).collect::<Vec<_>>() } else { vec![] }),
	);
	cov.insert("counters".into(), json!(m.counters));
	cov.insert("workers".into(), json!(args.workers));
	let mut viols: Vec<ViolationRec> = m.violations.into_values().collect();
	if let Some(p) = post {
		p(&mut cov, &mut viols);
	}
	// a worker that was killed at the hard cap is a cap, not a machinery error, as long
	// as the others reported; a divergence / nondeterminism report is machinery
	let machinery = m.machinery.filter(|s| !s.contains("hard wall cap") || m.stats.executions == 0);
	finish(Report {
		property: h.property().to_string(),
		tier: args.tier,
		seed: args.seed,
		wall_s: t_start.elapsed().as_secs_f64(),
		coverage: cov,
		assumptions,
		violations: viols,
		machinery,
	})
}

pub fn replay<H: Harness>(h: &H, path: &Path) -> i32 {
	let s = match std::fs::read_to_string(path) {
		Ok(s) => s,
		Err(e) => {
			eprintln!("cannot read {}: {e}", path.display());
			return 2;
		}
	};
	let v: ViolationRec = match serde_json::from_str(&s) {
		Ok(v) => v,
		Err(e) => {
			eprintln!("cannot parse {}: {e}", path.display());
			return 2;
		}
	};
	let sc: H::Sc = match serde_json::from_value(v.scenario.clone()) {
		Ok(s) => s,
		Err(e) => {
			eprintln!("scenario does not fit harness {}: {e}", h.name());
			return 2;
		}
	};
	let bounds = v.bounds.unwrap_or(Bounds::k(0, explore::Policy::Fifo));
	let watch = std::sync::Arc::new(std::sync::Mutex::new(Watch { started: Instant::now(), scenario: v.scenario.clone(), bounds: Some(bounds), prefix: v.choices.clone(), armed: true }));
	spawn_watchdog(watch, h.property().to_string(), h.name().to_string(), None, true);
	match h.run(&sc, bounds, &v.choices) {
		Err(m) => {
			eprintln!("machinery: {m}");
			2
		}
		Ok(ex) => {
			if let Some(d) = ex.divergence {
				eprintln!("machinery: replay divergence: {d}");
				return 2;
			}
			if ex.points.len() != v.choices.len() {
				eprintln!("machinery: replay took {} points, file has {}", ex.points.len(), v.choices.len());
				if std::env::var_os("VERIF_TRACE").is_some() {
					for (i, p) in ex.points.iter().enumerate() {
						eprintln!("  point {i}: {p:?}");
					}
					for l in &ex.out.log {
						eprintln!("  {l}");
					}
				}
				return 2;
			}
			println!("scenario: {}", v.scenario);
			println!("bounds: {}  deviations: {}", bounds.label(), explore::deviations(&ex.points, bounds.policy));
			for l in &ex.out.log {
				println!("  {l}");
			}
			if ex.out.violations.is_empty() {
				println!("replay: no violation");
				0
			} else {
				for (k, d) in &ex.out.violations {
					println!("violated: {k}: {d}");
				}
				println!("VIOLATION property={} replay={}", v.property, path.display());
				1
			}
		}
	}
}


/// Run a helper subprocess (real-process legs) with a wall-clock limit; `None` if it had to
/// be killed or could not be started.
pub fn output_with_timeout(mut cmd: Command, secs: u64) -> Option<std::process::Output> {
	cmd.stdin(Stdio::null()).stdout(Stdio::piped()).stderr(Stdio::piped());
	let mut child = cmd.spawn().ok()?;
	let t0 = Instant::now();
	loop {
		match child.try_wait() {
			Ok(Some(_)) => return child.wait_with_output().ok(),
			Ok(None) => {
				if t0.elapsed() > Duration::from_secs(secs) {
					let _ = child.kill();
					let _ = child.wait();
					return None;
				}
				std::thread::sleep(Duration::from_millis(50));
			}
			Err(_) => return None,
		}
	}
}
