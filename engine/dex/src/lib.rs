//! DEX: deterministic exhaustive exploration of real tokio code, plus the
//! orchestration / evidence plumbing shared by every check.
pub mod explore;
pub mod orch;
pub mod rt;
