//! Runtime and driver helpers: a paused current-thread tokio whose scheduling, `select!`
//! start branch and clock belong to the explorer.

use std::{
	cell::{Cell, RefCell},
	future::Future,
	panic::{catch_unwind, AssertUnwindSafe},
	time::Duration,
};

use crate::explore::{self, choose, Bounds, Ctl, Exec, Kind, Point};

pub const TICK: Duration = Duration::from_millis(10);

thread_local! {
	/// spawn ordinals of tasks that only run when the driver says so (slow consumers)
	static SLOW: RefCell<std::collections::BTreeSet<u64>> = const { RefCell::new(std::collections::BTreeSet::new()) };
	/// slow task the driver lets run in the next scheduling round
	static FORCE: Cell<Option<u64>> = const { Cell::new(None) };
	static NOW: Cell<u64> = const { Cell::new(0) };
	static SELECT_FILTER: RefCell<Option<Box<dyn Fn(usize) -> bool>>> = const { RefCell::new(None) };
	static POLLS: Cell<u64> = const { Cell::new(0) };
}

/// Virtual time in ticks since the start of the execution.
pub fn now() -> u64 {
	NOW.with(Cell::get)
}

/// Number of task polls the driver has granted so far in this execution.
pub fn polls() -> u64 {
	POLLS.with(Cell::get)
}

/// Install a predicate deciding whether the start branch of a `select!` with the given
/// arity can matter right now (i.e. whether two or more branches may be ready). It may
/// over-approximate; it must never return false when two branches can be ready.
pub fn set_select_filter(f: Option<Box<dyn Fn(usize) -> bool>>) {
	SELECT_FILTER.with(|s| *s.borrow_mut() = f);
}

/// Advance virtual time by one tick. Timers that become due are woken, not run.
pub async fn tick() {
	NOW.with(|n| n.set(n.get() + 1));
	tokio::time::advance(TICK).await;
	// `advance` yields once internally: a runnable task may have been polled
	POLLS.with(|p| p.set(p.get() + 1));
}

pub struct Livelock;

/// Mark the task with this spawn ordinal as slow: from now on it is polled only through
/// `run_slow`. Models a consumer / handler that falls behind.
pub fn mark_slow(ordinal: u64) {
	SLOW.with(|s| s.borrow_mut().insert(ordinal));
}

pub fn clear_slow() {
	SLOW.with(|s| s.borrow_mut().clear());
}

pub fn is_slow(ordinal: u64) -> bool {
	SLOW.with(|s| s.borrow().contains(&ordinal))
}

/// Slow tasks that are currently runnable.
pub fn slow_runnable() -> Vec<u64> {
	let r = tokio::verif::runnable_ordinals();
	SLOW.with(|s| r.into_iter().filter(|o| s.borrow().contains(o)).collect())
}

/// Number of runnable tasks that are not slow.
pub fn runnable_fast() -> usize {
	let r = tokio::verif::runnable_ordinals();
	SLOW.with(|s| r.iter().filter(|o| !s.borrow().contains(o)).count())
}

/// Let one slow task be polled once.
pub async fn run_slow(ordinal: u64) {
	FORCE.with(|f| f.set(Some(ordinal)));
	tokio::task::yield_now().await;
	FORCE.with(|f| f.set(None));
	POLLS.with(|p| p.set(p.get() + 1));
}

thread_local! {
	static PANICS: RefCell<Vec<String>> = const { RefCell::new(Vec::new()) };
}

/// Route panics into a thread-local list instead of stderr. Panics inside spawned tasks
/// are caught by tokio; the harness inspects the list after each execution.
pub fn quiet_panics() {
	std::panic::set_hook(Box::new(|info| {
		let loc = info.location().map_or("?".to_string(), |l| format!("{}:{}", l.file(), l.line()));
		let msg = info
			.payload()
			.downcast_ref::<String>()
			.cloned()
			.or_else(|| info.payload().downcast_ref::<&str>().map(|s| (*s).to_string()))
			.unwrap_or_default();
		PANICS.with(|p| p.borrow_mut().push(format!("{loc}: {msg}")));
	}));
}

/// Panics recorded since the last call.
pub fn take_panics() -> Vec<String> {
	PANICS.with(|p| std::mem::take(&mut *p.borrow_mut()))
}

/// Let runnable tasks run, one poll at a time, until none is runnable. With `preempt`
/// the explorer may decide (a PREEMPT deviation) to hand control back early; returns
/// `Ok(false)` in that case and `Ok(true)` on quiescence.
pub async fn settle(preempt: bool, mut after_poll: impl FnMut()) -> Result<bool, Livelock> {
	let mut guard = 0u32;
	while runnable_fast() > 0 {
		if preempt && choose(Kind::Preempt, 2) == 1 {
			return Ok(false);
		}
		tokio::task::yield_now().await;
		POLLS.with(|p| p.set(p.get() + 1));
		after_poll();
		guard += 1;
		if guard > 20_000 {
			return Err(Livelock);
		}
	}
	Ok(true)
}

/// Default-schedule quiescence without recording any point (used in drain phases).
pub async fn settle_quiet() -> Result<(), Livelock> {
	let mut guard = 0u32;
	while runnable_fast() > 0 {
		tokio::task::yield_now().await;
		POLLS.with(|p| p.set(p.get() + 1));
		guard += 1;
		if guard > 20_000 {
			return Err(Livelock);
		}
	}
	Ok(())
}

pub enum RunError {
	Panic(String),
}

/// Run one execution: fresh runtime, explorer controller installed, the tokio seams
/// routed to it; returns the recorded points and whatever the body produced.
/// `enable_io` must be set for subjects that start the signal source.
pub fn run_one<O, Fut>(
	bounds: Bounds,
	prefix: &[Point],
	enable_io: bool,
	body: impl FnOnce() -> Fut,
) -> Result<Exec<O>, RunError>
where
	Fut: Future<Output = O>,
{
	NOW.with(|n| n.set(0));
	POLLS.with(|n| n.set(0));
	let _ = take_panics();
	tokio::verif::reset_spawn_order();
	SLOW.with(|s| s.borrow_mut().clear());
	FORCE.with(|f| f.set(None));
	explore::install(Ctl {
		bounds,
		prefix: prefix.to_vec(),
		points: Vec::with_capacity(prefix.len() + 32),
		divergence: None,
		strict: true,
	});
	tokio::verif::set_chooser(Some(Box::new(|k, n, ords| match k {
		tokio::verif::Kind::Sched => {
			if let Some(f) = FORCE.with(Cell::take) {
				if let Some(i) = ords.iter().position(|o| *o == f) {
					return i;
				}
			}
			let fast: Vec<usize> = SLOW.with(|s| {
				let s = s.borrow();
				(0..n).filter(|i| !s.contains(&ords[*i])).collect()
			});
			if fast.is_empty() {
				// only slow tasks are runnable and the driver did not release one
				return tokio::verif::DECLINE;
			}
			fast[choose(Kind::Sched, fast.len())]
		}
		tokio::verif::Kind::Select => {
			let matters = SELECT_FILTER.with(|f| f.borrow().as_ref().map_or(true, |f| f(n)));
			if matters {
				choose(Kind::Select, n)
			} else {
				0
			}
		}
	})));
	let res = catch_unwind(AssertUnwindSafe(|| {
		let mut b = tokio::runtime::Builder::new_current_thread();
		if enable_io {
			b.enable_all();
		} else {
			b.enable_time();
		}
		let rt = b.start_paused(true).event_interval(1).build().expect("runtime");
		let out = rt.block_on(body());
		drop(rt);
		out
	}));
	tokio::verif::set_chooser(None);
	set_select_filter(None);
	let ctl = explore::uninstall().expect("controller");
	match res {
		Ok(out) => Ok(Exec { points: ctl.points, divergence: ctl.divergence, out }),
		Err(p) => {
			let msg = p
				.downcast_ref::<String>()
				.cloned()
				.or_else(|| p.downcast_ref::<&str>().map(|s| (*s).to_string()))
				.unwrap_or_else(|| "panic".into());
			let locs = take_panics();
			Err(RunError::Panic(format!("{msg} @ {locs:?}")))
		}
	}
}
