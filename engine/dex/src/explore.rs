//! Stateless, deviation-bounded exhaustive exploration of choice sequences.
//!
//! A *point* is one place where the execution asked for a decision; an execution is
//! fully determined by the list of its points' choices. The explorer re-runs the
//! subject from scratch for every prefix (tokio state can be neither copied nor hashed)
//! and enumerates, depth first, every alternative at every point that the bounding mode
//! allows.

use std::{
	cell::RefCell,
	collections::hash_map::DefaultHasher,
	hash::{Hash, Hasher},
	time::Instant,
};

use serde::{Deserialize, Serialize};

#[derive(Clone, Copy, PartialEq, Eq, Debug, Hash, Serialize, Deserialize)]
#[repr(u8)]
pub enum Kind {
	/// which enabled environment action happens next: always fully branched
	Env = 0,
	/// start branch of a non-biased `select!`
	Select = 1,
	/// which runnable task is polled next
	Sched = 2,
	/// the driver acts although tasks are still runnable
	Preempt = 3,
}

#[derive(Clone, Copy, PartialEq, Eq, Debug, Hash, Serialize, Deserialize)]
pub struct Point {
	pub kind: Kind,
	pub arity: u16,
	pub choice: u16,
}

#[derive(Clone, Copy, PartialEq, Eq, Debug, Hash, Serialize, Deserialize)]
pub enum Policy {
	/// tokio's own order: oldest woken task first
	Fifo,
	/// newest woken task first
	Lifo,
}

#[derive(Clone, Copy, PartialEq, Eq, Debug, Hash, Serialize, Deserialize)]
pub enum Mode {
	/// every execution with at most `k` non-default SELECT/SCHED/PREEMPT choices
	Bounded { k: usize },
	/// every combination of SCHED/PREEMPT choices inside a window of `w` scheduling
	/// points after one ENV action (the anchor), base policy elsewhere, SELECT default
	Window { w: usize },
}

#[derive(Clone, Copy, PartialEq, Eq, Debug, Hash, Serialize, Deserialize)]
pub struct Bounds {
	pub mode: Mode,
	pub policy: Policy,
}

impl Bounds {
	pub fn k(k: usize, policy: Policy) -> Self {
		Self { mode: Mode::Bounded { k }, policy }
	}
	pub fn window(w: usize, policy: Policy) -> Self {
		Self { mode: Mode::Window { w }, policy }
	}
	/// Which kinds are recorded and branched. At k = 0 nothing but ENV is recorded, so
	/// the replay signature consists of ENV points only.
	pub fn records(&self, kind: Kind) -> bool {
		match (self.mode, kind) {
			(_, Kind::Env) => true,
			(Mode::Bounded { k }, _) => k > 0,
			(Mode::Window { .. }, Kind::Select) => false,
			(Mode::Window { w }, _) => w > 0,
		}
	}
	pub fn label(&self) -> String {
		let p = match self.policy {
			Policy::Fifo => "fifo",
			Policy::Lifo => "lifo",
		};
		match self.mode {
			Mode::Bounded { k } => format!("k{k}/{p}"),
			Mode::Window { w } => format!("w{w}/{p}"),
		}
	}
}

pub fn default_choice(kind: Kind, arity: u16, policy: Policy) -> u16 {
	match (kind, policy) {
		(Kind::Sched, Policy::Lifo) => arity - 1,
		_ => 0,
	}
}

/// Per-execution controller, installed in a thread local for the duration of one run.
pub struct Ctl {
	pub bounds: Bounds,
	pub prefix: Vec<Point>,
	pub points: Vec<Point>,
	/// set when the replayed prefix does not match what the execution asks for
	pub divergence: Option<String>,
	/// when true, a prefix that is longer than the execution, or a mismatch, is an error
	pub strict: bool,
}

thread_local! {
	static CTL: RefCell<Option<Ctl>> = const { RefCell::new(None) };
}

pub fn install(ctl: Ctl) {
	CTL.with(|c| *c.borrow_mut() = Some(ctl));
}

pub fn uninstall() -> Option<Ctl> {
	CTL.with(|c| c.borrow_mut().take())
}

pub fn installed() -> bool {
	CTL.with(|c| c.borrow().is_some())
}

/// Ask the explorer for a decision. Returns the default when no controller is installed,
/// when the arity is < 2, or when this kind is not recorded under the current bounds.
pub fn choose(kind: Kind, n: usize) -> usize {
	if n <= 1 {
		return 0;
	}
	CTL.with(|c| {
		let mut c = c.borrow_mut();
		let Some(c) = c.as_mut() else { return 0 };
		let arity = n.min(u16::MAX as usize) as u16;
		let def = default_choice(kind, arity, c.bounds.policy);
		if !c.bounds.records(kind) {
			return def as usize;
		}
		let i = c.points.len();
		let choice = if i < c.prefix.len() {
			let p = c.prefix[i];
			if p.kind != kind || p.arity != arity || p.choice >= arity {
				if c.divergence.is_none() {
					c.divergence = Some(format!(
						"point {i}: recorded {:?}/{} choice {}, execution asks {:?}/{}",
						p.kind, p.arity, p.choice, kind, arity
					));
				}
				def
			} else {
				p.choice
			}
		} else {
			def
		};
		c.points.push(Point { kind, arity, choice });
		choice as usize
	})
}

/// Number of points recorded so far in the running execution.
pub fn points_so_far() -> usize {
	CTL.with(|c| c.borrow().as_ref().map_or(0, |c| c.points.len()))
}

pub fn is_deviation(p: &Point, policy: Policy) -> bool {
	p.kind != Kind::Env && p.choice != default_choice(p.kind, p.arity, policy)
}

pub fn deviations(points: &[Point], policy: Policy) -> usize {
	points.iter().filter(|p| is_deviation(p, policy)).count()
}

/// What one execution hands back to the explorer.
pub struct Exec<O> {
	pub points: Vec<Point>,
	pub divergence: Option<String>,
	pub out: O,
}

#[derive(Default, Clone, Debug, Serialize, Deserialize)]
pub struct Stats {
	pub executions: u64,
	/// choice-tree nodes first visited by these executions (leaves included)
	pub nodes: u64,
	/// choice-tree edges first traversed by these executions
	pub edges: u64,
	pub max_depth: u64,
	pub max_deviations: u64,
	pub replay_checks: u64,
}

impl Stats {
	pub fn add(&mut self, o: &Stats) {
		self.executions += o.executions;
		self.nodes += o.nodes;
		self.edges += o.edges;
		self.max_depth = self.max_depth.max(o.max_depth);
		self.max_deviations = self.max_deviations.max(o.max_deviations);
		self.replay_checks += o.replay_checks;
	}
}

#[derive(Debug)]
pub enum Stop {
	/// explored everything the bounds allow
	Complete,
	/// wall-clock deadline or execution cap hit before completion
	Capped,
	/// the visitor asked to stop
	Halted,
	/// replay divergence or nondeterminism: the run is void
	Machinery(String),
}

pub enum Visit {
	Continue,
	/// do not expand below this execution (used when it already violated)
	Prune,
	Halt,
}

pub struct DfsCfg {
	pub bounds: Bounds,
	pub deadline: Option<Instant>,
	pub max_execs: Option<u64>,
	/// run every m-th execution twice and compare fingerprints (0 = never)
	pub replay_every: u64,
}

/// Children of an execution under the bounding mode: every alternative at every point
/// at or after `plen` that the mode allows.
pub fn children(points: &[Point], plen: usize, bounds: &Bounds, out: &mut Vec<Vec<Point>>) {
	let policy = bounds.policy;
	match bounds.mode {
		Mode::Bounded { k } => {
			let used = deviations(&points[..plen], policy);
			for i in plen..points.len() {
				let p = points[i];
				if p.kind != Kind::Env && used >= k {
					continue;
				}
				for alt in 0..p.arity {
					if alt == p.choice {
						continue;
					}
					let mut np = points[..i].to_vec();
					np.push(Point { kind: p.kind, arity: p.arity, choice: alt });
					out.push(np);
				}
			}
		}
		Mode::Window { w } => {
			// The first deviation fixes the anchor: the last ENV point before it. Further
			// deviations are allowed while fewer than `w` non-ENV points have passed since
			// the anchor.
			let mut anchor_off: Option<usize> = None;
			let mut since_env = 0usize;
			for (i, p) in points.iter().enumerate() {
				let is_env = p.kind == Kind::Env;
				if i < plen {
					if is_deviation(p, policy) && anchor_off.is_none() {
						anchor_off = Some(since_env);
					}
					if is_env {
						if anchor_off.is_none() {
							since_env = 0;
						}
					} else {
						since_env += 1;
						if let Some(a) = anchor_off.as_mut() {
							*a += 1;
						}
					}
					continue;
				}
				let ok = is_env
					|| match anchor_off {
						None => since_env < w,
						Some(a) => a < w,
					};
				if ok {
					for alt in 0..p.arity {
						if alt == p.choice {
							continue;
						}
						let mut np = points[..i].to_vec();
						np.push(Point { kind: p.kind, arity: p.arity, choice: alt });
						out.push(np);
					}
				}
				if is_env {
					if anchor_off.is_none() {
						since_env = 0;
					}
				} else {
					since_env += 1;
					if let Some(a) = anchor_off.as_mut() {
						*a += 1;
					}
				}
			}
		}
	}
}

/// Depth-first exploration. `run` executes the subject under the given prefix;
/// `fingerprint` hashes everything observable about an execution (used for the
/// replay-twice determinism check); `visit` evaluates it.
pub fn dfs<O>(
	cfg: &DfsCfg,
	stats: &mut Stats,
	mut run: impl FnMut(&[Point]) -> Exec<O>,
	fingerprint: impl Fn(&O) -> u64,
	mut visit: impl FnMut(&Exec<O>, usize) -> Visit,
) -> Stop {
	let mut stack: Vec<Vec<Point>> = vec![vec![]];
	let mut kids = Vec::new();
	while let Some(prefix) = stack.pop() {
		if let Some(d) = cfg.deadline {
			if Instant::now() >= d {
				return Stop::Capped;
			}
		}
		if let Some(m) = cfg.max_execs {
			if stats.executions >= m {
				return Stop::Capped;
			}
		}
		let ex = run(&prefix);
		if let Some(d) = &ex.divergence {
			return Stop::Machinery(format!("replay divergence: {d}"));
		}
		if ex.points.len() < prefix.len() {
			return Stop::Machinery(format!(
				"replay divergence: execution ended after {} points, prefix has {}",
				ex.points.len(),
				prefix.len()
			));
		}
		stats.executions += 1;
		let plen = prefix.len();
		let fresh = (ex.points.len() - plen) as u64;
		stats.nodes += fresh + u64::from(plen == 0);
		stats.edges += fresh + u64::from(plen > 0);
		stats.max_depth = stats.max_depth.max(ex.points.len() as u64);
		stats.max_deviations = stats
			.max_deviations
			.max(deviations(&ex.points, cfg.bounds.policy) as u64);

		if cfg.replay_every > 0 && stats.executions % cfg.replay_every == 1 {
			let again = run(&ex.points);
			stats.replay_checks += 1;
			if again.divergence.is_some()
				|| again.points != ex.points
				|| fingerprint(&again.out) != fingerprint(&ex.out)
			{
				return Stop::Machinery(format!(
					"nondeterminism: replaying the full choice list of execution {} gave a different run ({:?})",
					stats.executions, again.divergence
				));
			}
		}

		match visit(&ex, plen) {
			Visit::Continue => {}
			Visit::Prune => continue,
			Visit::Halt => return Stop::Halted,
		}

		kids.clear();
		children(&ex.points, plen, &cfg.bounds, &mut kids);
		// reverse so that the earliest / simplest alternative is explored first
		while let Some(k) = kids.pop() {
			stack.push(k);
		}
	}
	Stop::Complete
}

pub fn hash_strs<'a>(it: impl IntoIterator<Item = &'a String>) -> u64 {
	let mut h = DefaultHasher::new();
	for s in it {
		s.hash(&mut h);
	}
	h.finish()
}

pub fn choices_of(points: &[Point]) -> Vec<(u8, u16, u16)> {
	points.iter().map(|p| (p.kind as u8, p.arity, p.choice)).collect()
}
